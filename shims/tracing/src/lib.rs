//! verification shim: logging has an empty body (arguments are type-checked but never evaluated)
#[derive(Clone, Debug)]
pub struct Span;
impl Span { pub fn none() -> Self { Span } pub fn current() -> Self { Span } }

pub trait Instrument: Sized {
    fn instrument(self, _span: Span) -> Self { self }
    fn in_current_span(self) -> Self { self }
}
impl<T: Sized> Instrument for T {}

#[macro_export]
macro_rules! __verif_noop { ($($arg:tt)*) => {{ if false { let _ = ::core::format_args!($($arg)*); } }}; }
#[macro_export]
macro_rules! trace { ($($arg:tt)*) => { $crate::__verif_noop!($($arg)*) }; }
#[macro_export]
macro_rules! debug { ($($arg:tt)*) => { $crate::__verif_noop!($($arg)*) }; }
#[macro_export]
macro_rules! info { ($($arg:tt)*) => { $crate::__verif_noop!($($arg)*) }; }
#[macro_export]
macro_rules! warn { ($($arg:tt)*) => { $crate::__verif_noop!($($arg)*) }; }
#[macro_export]
macro_rules! error { ($($arg:tt)*) => { $crate::__verif_noop!($($arg)*) }; }
#[macro_export]
macro_rules! info_span { ($($arg:tt)*) => { $crate::Span }; }
#[macro_export]
macro_rules! error_span { ($($arg:tt)*) => { $crate::Span }; }
