// Harnesses for dnp3/src/app/measurement.rs + app/gen/conversion.rs — C10 measurement fidelity (value conversions)
use super::*;
use crate::app::parse::traits::FixedSize;
use crate::app::variations::*;
use crate::app::Timestamp;
use scursor::{ReadCursor, WriteCursor};

fn any_time() -> Option<Time> {
    let k: u8 = kani::any();
    kani::assume(k < 3);
    let ts = Timestamp::new(kani::any());
    match k {
        0 => None,
        1 => Some(Time::Synchronized(ts)),
        _ => Some(Time::Unsynchronized(ts)),
    }
}

fn wire<V: FixedSize, const S: usize>(v: &V) -> V {
    assert!(V::SIZE as usize == S);
    let mut buf = [0u8; S];
    {
        let mut c = WriteCursor::new(&mut buf);
        assert!(v.write(&mut c).is_ok());
        assert!(c.position() == S);
    }
    let mut r = ReadCursor::new(&buf);
    match V::read(&mut r) {
        Ok(x) => {
            assert!(r.is_empty());
            x
        }
        Err(_) => panic!("object of the declared size must read back"),
    }
}

fn check_time(sent: Option<Time>, got: Option<Time>, has_time: bool) {
    if has_time {
        // the 48-bit time field carries the timestamp (the synchronisation quality has no place in these objects)
        match (sent, got) {
            (Some(s), Some(g)) => assert!(g.timestamp() == s.timestamp()),
            (None, Some(g)) => assert!(g.timestamp() == Timestamp::new(0)),
            (_, None) => panic!("variation with time must report a time"),
        }
    } else {
        assert!(got.is_none());
    }
}

const OVER_RANGE: u8 = 0x20;

macro_rules! size_of_v {
    ($v:ty) => {
        <$v as FixedSize>::SIZE as usize
    };
}

macro_rules! rt_int {
    ($t:ident, $v:ident, $has_flags:expr, $has_time:expr, $int:ty) => {{
        let m = $t { value: kani::any(), flags: Flags::new(kani::any()), time: any_time() };
        let w: $v = m.to_variation();
        let w2 = wire::<$v, { size_of_v!($v) }>(&w);
        let m2 = $t::from(w2);
        let v = m.value;
        let lo = <$int>::MIN as f64;
        let hi = <$int>::MAX as f64;
        let got = m2.value;
        if v.is_nan() {
            // not representable: must not arrive as a clean-looking number
            if $has_flags {
                assert!(m2.flags.value & OVER_RANGE != 0);
            }
        } else if v < lo {
            assert!(got == lo);
            if $has_flags {
                assert!(m2.flags.value == m.flags.value | OVER_RANGE);
            }
        } else if v > hi {
            assert!(got == hi);
            if $has_flags {
                assert!(m2.flags.value == m.flags.value | OVER_RANGE);
            }
        } else {
            // in range: truncated toward zero, never wrapped or sign-flipped
            assert!(got == v.trunc());
            assert!((got - v).abs() < 1.0);
            assert!(!(v >= 1.0 && got < 0.0) && !(v <= -1.0 && got > 0.0));
            if $has_flags {
                assert!(m2.flags.value == m.flags.value);
            }
        }
        if !$has_flags {
            assert!(m2.flags == Flags::ONLINE);
        }
        check_time(m.time, m2.time, $has_time);
        kani::cover!(v.is_nan());
        kani::cover!(v > hi);
        kani::cover!(v > lo && v < hi && v != v.trunc());
    }};
}
macro_rules! rt_i16 {
    ($t:ident, $v:ident, $f:expr, $tm:expr) => {
        rt_int!($t, $v, $f, $tm, i16)
    };
}
macro_rules! rt_i32 {
    ($t:ident, $v:ident, $f:expr, $tm:expr) => {
        rt_int!($t, $v, $f, $tm, i32)
    };
}

macro_rules! rt_f32 {
    ($t:ident, $v:ident, $has_flags:expr, $has_time:expr) => {{
        let m = $t { value: kani::any(), flags: Flags::new(kani::any()), time: any_time() };
        let w: $v = m.to_variation();
        let w2 = wire::<$v, { size_of_v!($v) }>(&w);
        let m2 = $t::from(w2);
        let v = m.value;
        let hi = f32::MAX as f64;
        if v.is_nan() {
            assert!(m2.value.is_nan());
            assert!(m2.flags.value == m.flags.value);
        } else if v > hi {
            assert!(m2.value == hi && m2.flags.value == m.flags.value | OVER_RANGE);
        } else if v < -hi {
            assert!(m2.value == -hi && m2.flags.value == m.flags.value | OVER_RANGE);
        } else {
            // nearest single-precision value, sign kept
            assert!(m2.value == (v as f32) as f64);
            assert!(m2.flags.value == m.flags.value);
            assert!(m2.value.is_sign_negative() == v.is_sign_negative());
        }
        check_time(m.time, m2.time, $has_time);
        kani::cover!(v > hi);
        kani::cover!(v.is_nan());
    }};
}

macro_rules! rt_f64 {
    ($t:ident, $v:ident, $has_flags:expr, $has_time:expr) => {{
        let m = $t { value: kani::any(), flags: Flags::new(kani::any()), time: any_time() };
        let w: $v = m.to_variation();
        let w2 = wire::<$v, { size_of_v!($v) }>(&w);
        let m2 = $t::from(w2);
        if m.value.is_nan() {
            assert!(m2.value.is_nan());
        } else {
            assert!(m2.value.to_bits() == m.value.to_bits());
        }
        assert!(m2.flags.value == m.flags.value);
        check_time(m.time, m2.time, $has_time);
        kani::cover!(m.value.is_infinite());
    }};
}

macro_rules! rt_u32 {
    ($t:ident, $v:ident, $has_flags:expr, $has_time:expr) => {{
        let m = $t { value: kani::any(), flags: Flags::new(kani::any()), time: any_time() };
        let w: $v = m.to_variation();
        let w2 = wire::<$v, { size_of_v!($v) }>(&w);
        let m2 = $t::from(w2);
        assert!(m2.value == m.value);
        if $has_flags {
            assert!(m2.flags.value == m.flags.value);
        } else {
            assert!(m2.flags == Flags::ONLINE);
        }
        check_time(m.time, m2.time, $has_time);
        kani::cover!(m.value == u32::MAX);
    }};
}

macro_rules! rt_u16 {
    ($t:ident, $v:ident, $has_flags:expr, $has_time:expr) => {{
        let m = $t { value: kani::any(), flags: Flags::new(kani::any()), time: any_time() };
        let w: $v = m.to_variation();
        let w2 = wire::<$v, { size_of_v!($v) }>(&w);
        let m2 = $t::from(w2);
        // 16-bit counter objects carry the low 16 bits (IEEE 1815: counters roll over)
        assert!(m2.value == m.value & 0xFFFF);
        if $has_flags {
            assert!(m2.flags.value == m.flags.value);
        } else {
            assert!(m2.flags == Flags::ONLINE);
        }
        check_time(m.time, m2.time, $has_time);
        kani::cover!(m.value > 0xFFFF);
    }};
}

macro_rules! rt_bool {
    ($t:ident, $v:ident, $has_flags:expr, $has_time:expr) => {{
        let m = $t { value: kani::any(), flags: Flags::new(kani::any()), time: any_time() };
        let w: $v = m.to_variation();
        let w2 = wire::<$v, { size_of_v!($v) }>(&w);
        let m2 = $t::from(w2);
        // state travels in bit 7 of the flag octet; bits 0..=6 are the point's own flags
        assert!(m2.value == m.value);
        assert!(m2.flags.value & 0x7F == m.flags.value & 0x7F);
        assert!((m2.flags.value & 0x80 != 0) == m.value);
        check_time(m.time, m2.time, $has_time);
        kani::cover!(m.value && m.flags.value & 0x80 == 0);
    }};
}

fn any_double_bit() -> DoubleBit {
    let k: u8 = kani::any();
    kani::assume(k < 4);
    match k {
        0 => DoubleBit::Intermediate,
        1 => DoubleBit::DeterminedOff,
        2 => DoubleBit::DeterminedOn,
        _ => DoubleBit::Indeterminate,
    }
}

macro_rules! rt_dbit {
    ($t:ident, $v:ident, $has_flags:expr, $has_time:expr) => {{
        let m = $t { value: any_double_bit(), flags: Flags::new(kani::any()), time: any_time() };
        let w: $v = m.to_variation();
        let w2 = wire::<$v, { size_of_v!($v) }>(&w);
        let m2 = $t::from(w2);
        assert!(m2.value == m.value);
        assert!(m2.flags.value & 0x3F == m.flags.value & 0x3F);
        // IEEE 1815 double-bit state in bits 7..6: 0 intermediate, 1 off, 2 on, 3 indeterminate
        let code = match m.value {
            DoubleBit::Intermediate => 0,
            DoubleBit::DeterminedOff => 1,
            DoubleBit::DeterminedOn => 2,
            DoubleBit::Indeterminate => 3,
        };
        assert!(m2.flags.value >> 6 == code);
        check_time(m.time, m2.time, $has_time);
        kani::cover!(code == 2);
    }};
}

include!(concat!(env!("VERIF_GEN_DIR"), "/app_measurement_gen.rs"));
