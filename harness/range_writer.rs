// Harness for dnp3/src/outstation/database/details/range/writer.rs — the static-data response writer (C09 encoder side,
// C11 header/run logic without the B-tree backed database, C01)
use super::*;
use crate::app::measurement::{Counter, Flags};
use crate::app::variations::Group20Var1;
use crate::outstation::database::details::range::traits::{WriteInfo, WriteType};

fn counter_info() -> WriteInfo<Counter> {
    fn write(cursor: &mut WriteCursor, value: &Counter) -> Result<(), WriteError> {
        use crate::app::measurement::ToVariation;
        use crate::app::parse::traits::FixedSize;
        let v: Group20Var1 = value.to_variation();
        v.write(cursor)
    }
    WriteInfo { variation: Variation::Group20Var1, write_type: WriteType::Fixed(write) }
}

// @harness c11_range_writer_runs
// @props C11,C09,C01
// @tier quick
// @timeout 1800
// @mem 6
// @units RangeWriter::{new, write, try_write, start_header, write_next_value}, TypeState::write_next_value, is_consecutive, write_header
// @bounds three counters written at arbitrary strictly ascending indices i0 < i1 < i2 (incl. 65535) with arbitrary values/flags into a buffer with arbitrary room 0..=48: what was written is byte-for-byte [14h 01 01 start(LE) stop(LE)] + 5 bytes per point, consecutive indices sharing one header whose stop field is patched, a gap starting a new header; a point that does not fit leaves the buffer exactly as it was after the previous point (no torn object, no stale stop field) and every later write fails too (the caller resumes in the next fragment)
#[kani::proof]
#[kani::unwind(6)]
fn c11_range_writer_runs() {
    let idx: [u16; 3] = kani::any();
    kani::assume(idx[0] < idx[1] && idx[1] < idx[2]);
    let vals = [
        Counter { value: kani::any(), flags: Flags::new(kani::any()), time: None },
        Counter { value: kani::any(), flags: Flags::new(kani::any()), time: None },
        Counter { value: kani::any(), flags: Flags::new(kani::any()), time: None },
    ];
    let room: usize = kani::any();
    kani::assume(room <= 48);
    let mut out = [0u8; 48];
    let mut w: RangeWriter<Counter> = RangeWriter::new();
    let mut ok = [false; 3];
    let len = {
        let mut c = WriteCursor::new(&mut out[..room]);
        let mut k = 0;
        while k < 3 {
            ok[k] = w.write(&mut c, idx[k], &vals[k], counter_info()).is_ok();
            k += 1;
        }
        c.position()
    };
    // once full, always full: no later point may sneak in after one was refused
    assert!(!(ok[1] && !ok[0]) && !(ok[2] && !ok[1]));
    // reference encoding of the accepted prefix
    let mut exp = [0u8; 48];
    let mut pos = 0usize;
    let mut stop_pos = 0usize;
    let mut k = 0;
    while k < 3 {
        if ok[k] {
            let new_header = k == 0 || idx[k] != idx[k - 1] + 1;
            if new_header {
                exp[pos] = 20;
                exp[pos + 1] = 1;
                exp[pos + 2] = 0x01;
                exp[pos + 3] = (idx[k] & 0xff) as u8;
                exp[pos + 4] = (idx[k] >> 8) as u8;
                stop_pos = pos + 5;
                pos += 7;
            }
            exp[stop_pos] = (idx[k] & 0xff) as u8;
            exp[stop_pos + 1] = (idx[k] >> 8) as u8;
            exp[pos] = vals[k].flags.value;
            let b = vals[k].value.to_le_bytes();
            exp[pos + 1] = b[0];
            exp[pos + 2] = b[1];
            exp[pos + 3] = b[2];
            exp[pos + 4] = b[3];
            pos += 5;
        }
        k += 1;
    }
    assert!(len == pos && len <= room);
    let j: usize = kani::any();
    kani::assume(j < len);
    assert!(out[j] == exp[j]);
    // a refusal means the point really did not fit
    if !ok[0] {
        assert!(room < 12);
    }
    kani::cover!(ok[2] && idx[1] == idx[0] + 1 && idx[2] != idx[1] + 1);
    kani::cover!(ok[0] && !ok[1]);
    kani::cover!(ok[2] && idx[2] == 65535);
}

fn bit_info() -> WriteInfo<bool> {
    WriteInfo { variation: Variation::Group1Var1, write_type: WriteType::Bits(|b| *b) }
}

// @harness c11_range_writer_packed_bits
// @props C11,C09,C01
// @tier quick
// @timeout 1800
// @mem 6
// @units RangeWriter::{write, try_write, start_header, write_next_value}, TypeState::write_next_value (Bit), BitState::next
// @bounds ten single-bit points at consecutive indices s..s+9 (s arbitrary <= 65526) with arbitrary values into a buffer with arbitrary room 0..=12: one header [01 01 01 start stop], bits packed LSB first, the ninth point opening a second data byte; a point that does not fit leaves everything written before intact (the already transmitted bits of the shared byte are not disturbed) and later points are refused
#[kani::proof]
#[kani::unwind(12)]
fn c11_range_writer_packed_bits() {
    let s: u16 = kani::any();
    kani::assume(s <= 65526);
    let bits: u16 = kani::any();
    let room: usize = kani::any();
    kani::assume(room <= 12);
    let mut out = [0u8; 12];
    let mut w: RangeWriter<bool> = RangeWriter::new();
    let mut n_ok = 0u16;
    let mut refused = false;
    let len = {
        let mut c = WriteCursor::new(&mut out[..room]);
        let mut k = 0u16;
        while k < 10 {
            let v = bits & (1 << k) != 0;
            let r = w.write(&mut c, s + k, &v, bit_info()).is_ok();
            if r {
                assert!(!refused);
                n_ok += 1;
            } else {
                refused = true;
            }
            k += 1;
        }
        c.position()
    };
    if n_ok == 0 {
        assert!(len == 0 && room < 8);
    } else {
        let nbytes = if n_ok > 8 { 2 } else { 1 };
        assert!(len == 7 + nbytes);
        assert!(out[0] == 1 && out[1] == 1 && out[2] == 0x01);
        assert!(u16::from_le_bytes([out[3], out[4]]) == s);
        assert!(u16::from_le_bytes([out[5], out[6]]) == s + (n_ok - 1));
        let mask0: u16 = if n_ok >= 8 { 0xFF } else { (1 << n_ok) - 1 };
        assert!(out[7] as u16 == bits & mask0);
        if n_ok > 8 {
            let mask1: u16 = (1 << (n_ok - 8)) - 1;
            assert!(out[8] as u16 == (bits >> 8) & mask1);
        }
    }
    kani::cover!(n_ok == 10);
    kani::cover!(n_ok == 8 && refused);
    kani::cover!(n_ok == 0);
}
