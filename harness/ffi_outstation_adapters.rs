// hook module for ffi/dnp3-ffi (C20): generated enum-conversion harnesses
use super::*;
include!(concat!(env!("VERIF_GEN_DIR"), "/ffi_outstation_adapters_gen.rs"));
