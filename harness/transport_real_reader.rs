// Helpers + harnesses for dnp3/src/transport/real/reader.rs
use super::*;
use crate::link::header::FrameInfo;

/// place one complete single-segment fragment in the reader's assembler (what Reader::read does after the link
/// layer accepted a FIR+FIN data frame)
pub(crate) fn inject(reader: &mut Reader, info: FrameInfo, data: &[u8]) -> bool {
    let header = Header::new(true, true, crate::transport::real::sequence::Sequence::new(0));
    matches!(reader.assembler.assemble(info, header, data), AssemblyState::Complete)
}

pub(crate) fn set_pending(reader: &mut Reader, msg: LinkLayerMessage) {
    reader.pending_link_layer_message = Some(msg);
}

// @harness c08_reader_peek_guard
// @props C08
// @tier quick
// @timeout 300
// @units transport::real::reader::Reader::{peek, pop, reset}
// @bounds a reader holding a complete fragment (1..=4 bytes) and optionally a pending link-layer message: peek reports it (this is the early return that keeps assemble() from being entered in state Complete), pop hands out the link message first, then the fragment exactly once; reset drops both
#[kani::proof]
#[kani::unwind(8)]
fn c08_reader_peek_guard() {
    let mut r = Reader::outstation(
        LinkModes::stream(crate::link::LinkErrorMode::Close),
        EndpointAddress::raw(10),
        Feature::Disabled,
        249,
    );
    assert!(r.peek().is_none());
    let info = crate::transport::real::assembler::verif_harness::any_frame_info();
    let data: [u8; 4] = kani::any();
    let n: usize = kani::any();
    kani::assume(n >= 1 && n <= 4);
    assert!(inject(&mut r, info, &data[..n]));
    assert!(matches!(r.peek(), Some(TransportData::Fragment(_))));
    let with_msg: bool = kani::any();
    if with_msg {
        set_pending(&mut r, LinkLayerMessage { source: info.source, message: LinkLayerMessageType::LinkStatusRequest });
        assert!(matches!(r.pop(), Some(TransportData::LinkLayerMessage(_))));
    }
    if kani::any() {
        r.reset();
        assert!(r.peek().is_none() && r.pop().is_none());
    } else {
        match r.pop() {
            Some(TransportData::Fragment(f)) => assert!(f.data.len() == n && f.data[0] == data[0] && f.info.addr.link == info.source),
            _ => panic!("fragment expected"),
        }
        assert!(r.pop().is_none());
    }
    kani::cover!(with_msg);
}
