// Harnesses for dnp3/src/transport/reader.rs — C07 (foreign-master / broadcast filter), C15 (response validation)
use super::*;
use crate::app::{ControlField, Iin, Iin1, Iin2, ObjectParseError};
use crate::app::parse::parser::HeaderCollection;
use crate::app::{FunctionCode, Sequence};
use crate::link::header::{BroadcastConfirmMode, FrameInfo, FrameType};
use crate::transport::real::reader::verif_harness::inject;
use crate::util::phys::PhysAddr;

fn any_function() -> FunctionCode {
    let f: u8 = kani::any();
    match FunctionCode::from(f) {
        Some(x) => x,
        None => {
            kani::assume(false);
            FunctionCode::Confirm
        }
    }
}

fn any_control() -> ControlField {
    ControlField::from(kani::any())
}

/// Stand-in for ParsedFragment::parse: EVERY outcome the real parser can produce for the header part -
/// an arbitrary header parse error, or a fragment with arbitrary control field, arbitrary function code and
/// (for responses) arbitrary IIN; object headers are the empty collection or a parse error.
/// The outcome is chosen ONCE per harness (the real parser is a function of the bytes: calling it twice on the same
/// fragment gives the same answer) and must be the only thing the filter under test depends on.
#[derive(Copy, Clone)]
struct Outcome {
    kind: u8,
    seq: u8,
    raw_function: u8,
    function: FunctionCode,
    control: ControlField,
    iin: (u8, u8),
    objects_ok: bool,
}
static mut OUTCOME: Option<Outcome> = None;

fn choose_outcome() {
    let o = Outcome {
        kind: kani::any(),
        seq: kani::any(),
        raw_function: kani::any(),
        function: any_function(),
        control: any_control(),
        iin: (kani::any(), kani::any()),
        objects_ok: kani::any(),
    };
    unsafe { OUTCOME = Some(o) };
}

fn parse_any<'a>(options: ParseOptions, fragment: &'a [u8]) -> Result<ParsedFragment<'a>, HeaderParseError>
where
    'a: 'a, // early-bound, like the impl<'a> the real method lives in (Kani compares generic counts)
{
    let o = unsafe { OUTCOME.unwrap() };
    if o.kind == 0 {
        return Err(HeaderParseError::InsufficientBytes);
    }
    if o.kind == 1 {
        return Err(HeaderParseError::UnknownFunction(Sequence::new(o.seq), o.raw_function));
    }
    let iin = match o.function {
        FunctionCode::Response | FunctionCode::UnsolicitedResponse => Some(Iin::new(Iin1 { value: o.iin.0 }, Iin2 { value: o.iin.1 })),
        _ => None,
    };
    let empty: &'a [u8] = &fragment[0..0];
    Ok(ParsedFragment {
        control: o.control,
        function: o.function,
        options,
        iin,
        objects: if o.objects_ok { HeaderCollection::parse(options, FunctionCode::Read, empty) } else { Err(ObjectParseError::InsufficientBytes) },
        raw_fragment: fragment,
        raw_objects: empty,
    })
}

fn outstation_reader() -> TransportReader {
    TransportReader::outstation(
        LinkModes::stream(crate::link::LinkErrorMode::Close),
        ParseOptions::parse_everything(),
        EndpointAddress::raw(1024),
        Feature::Disabled,
        249,
    )
}

// @harness c07_pop_request_foreign_master
// @props C07
// @tier quick
// @timeout 900
// @mem 4
// @units TransportReader::{pop_request, peek_request, parse}, RequestGuard::get, ParsedFragment::to_request, real transport Reader::{peek,pop}, Assembler
// @bounds outstation with a configured master address m (any endpoint address); a complete fragment from ANY other source s != m sits in the reader (not a broadcast); for EVERY outcome of fragment-header parsing (error kinds, every function code incl. responses, every control byte, object error or not): pop_request(Some(m)) hands NOTHING to the session
// @stubs ParsedFragment::parse -> nondeterministic choice over all header-parse outcomes (function code/control/IIN symbolic)
// @replay trace
// @outside what the async session does with a fragment it is handed
#[kani::proof]
#[kani::unwind(6)]
#[kani::stub(ParsedFragment::parse, parse_any)]
fn c07_pop_request_foreign_master() {
    choose_outcome();
    let mut tr = outstation_reader();
    let m: u16 = kani::any();
    let s: u16 = kani::any();
    kani::assume(m < 0xFFF0 && s < 0xFFF0 && s != m);
    let info = FrameInfo::new(EndpointAddress::raw(s), None, FrameType::Data, PhysAddr::None);
    let data: [u8; 2] = kani::any();
    assert!(inject(&mut tr.inner, info, &data));
    let mut guard = tr.pop_request(Some(EndpointAddress::raw(m)));
    let got = guard.get();
    kani::cover!(got.is_none());
    assert!(got.is_none());
}

// @harness c07_pop_request_configured_master
// @props C07
// @tier quick
// @timeout 900
// @mem 4
// @units TransportReader::{pop_request, peek_request, parse}, RequestGuard::{get, drop}
// @bounds same set-up, fragment from the configured master itself, or any source when no master address is required: it IS handed to the session (as a request or as an error to answer), the source address is reported truthfully, and dropping the guard consumes it exactly once
// @stubs ParsedFragment::parse -> nondeterministic choice over all header-parse outcomes
// @replay trace
#[kani::proof]
#[kani::unwind(6)]
#[kani::stub(ParsedFragment::parse, parse_any)]
fn c07_pop_request_configured_master() {
    choose_outcome();
    let mut tr = outstation_reader();
    let s: u16 = kani::any();
    kani::assume(s < 0xFFF0);
    let required = if kani::any() { Some(EndpointAddress::raw(s)) } else { None };
    let info = FrameInfo::new(EndpointAddress::raw(s), None, FrameType::Data, PhysAddr::None);
    let data: [u8; 2] = kani::any();
    assert!(inject(&mut tr.inner, info, &data));
    {
        let mut guard = tr.pop_request(required);
        match guard.get() {
            Some(TransportRequest::Request(i, _)) => assert!(i.addr.link.raw_value() == s && i.broadcast.is_none()),
            Some(TransportRequest::Error(a, _)) => assert!(a.link.raw_value() == s),
            _ => panic!("a fragment from the configured master must reach the session"),
        }
    }
    // guard dropped without retain(): the fragment is gone
    assert!(tr.inner.peek().is_none());
    kani::cover!(required.is_none());
}

// @harness c07_pop_request_broadcast_malformed
// @props C07
// @tier quick
// @timeout 900
// @mem 4
// @units TransportReader::{pop_request, peek_request, parse}, ParsedFragment::to_request
// @bounds a fragment received by BROADCAST (all three confirm modes), from the configured master: whatever the parse outcome, the session is never handed an *error to answer* (TransportRequest::Error carries no broadcast marker, so the session would reply to it); a well-formed request is handed over with its broadcast mode so that the session can stay silent
// @stubs ParsedFragment::parse -> nondeterministic choice over all header-parse outcomes
// @replay trace
#[kani::proof]
#[kani::unwind(6)]
#[kani::stub(ParsedFragment::parse, parse_any)]
fn c07_pop_request_broadcast_malformed() {
    choose_outcome();
    let mut tr = outstation_reader();
    let s: u16 = kani::any();
    kani::assume(s < 0xFFF0);
    let b: u8 = kani::any();
    kani::assume(b < 3);
    let mode = match b {
        0 => BroadcastConfirmMode::Optional,
        1 => BroadcastConfirmMode::Mandatory,
        _ => BroadcastConfirmMode::NotRequired,
    };
    let info = FrameInfo::new(EndpointAddress::raw(s), Some(mode), FrameType::Data, PhysAddr::None);
    let data: [u8; 2] = kani::any();
    assert!(inject(&mut tr.inner, info, &data));
    let mut guard = tr.pop_request(Some(EndpointAddress::raw(s)));
    match guard.get() {
        Some(TransportRequest::Request(i, _)) => {
            assert!(i.broadcast == Some(mode));
            kani::cover!(true);
        }
        Some(TransportRequest::Error(_, _)) => panic!("malformed broadcast fragment handed to the session as an error to answer"),
        Some(TransportRequest::LinkLayerMessage) => panic!("no link message was pending"),
        None => {}
    }
}

/// real parser, constant fragment bytes (so that the function-code match stays concrete), symbolic addresses:
/// the natively replayable twin of the stubbed harnesses above
fn foreign_bytes_case(bytes: &[u8], broadcast: bool) {
    let mut tr = outstation_reader();
    let m: u16 = kani::any();
    let s: u16 = kani::any();
    kani::assume(m < 0xFFF0 && s < 0xFFF0);
    let mode = if broadcast { Some(BroadcastConfirmMode::Optional) } else { None };
    if !broadcast {
        kani::assume(s != m);
    }
    let info = FrameInfo::new(EndpointAddress::raw(s), mode, FrameType::Data, PhysAddr::None);
    assert!(inject(&mut tr.inner, info, bytes));
    let mut guard = tr.pop_request(Some(EndpointAddress::raw(m)));
    let got = guard.get();
    if broadcast {
        assert!(!matches!(got, Some(TransportRequest::Error(_, _))));
    } else {
        assert!(got.is_none());
    }
    kani::cover!(true);
}

macro_rules! foreign_case {
    ($name:ident, $bytes:expr, $bc:expr) => {
        #[kani::proof]
        #[kani::unwind(8)]
        fn $name() {
            foreign_bytes_case(&$bytes, $bc)
        }
    };
}

// @harness c07_foreign_unknown_function
// @props C07
// @tier thorough
// @class attempt
// @timeout 600
// @units TransportReader::pop_request, ParsedFragment::parse (real), to_request
// @bounds fragment C0 70 (unknown function code) from any source != any configured master: nothing reaches the session
foreign_case!(c07_foreign_unknown_function, [0xC0u8, 0x70], false);
// @harness c07_foreign_response_function
// @props C07
// @tier thorough
// @class attempt
// @timeout 600
// @units TransportReader::pop_request, ParsedFragment::parse (real), to_request
// @bounds fragment C0 81 00 00 (a response sent to an outstation) from a foreign master
foreign_case!(c07_foreign_response_function, [0xC0u8, 0x81, 0x00, 0x00], false);
// @harness c07_foreign_non_fir_fin
// @props C07
// @tier thorough
// @class attempt
// @timeout 600
// @units TransportReader::pop_request, ParsedFragment::parse (real), to_request
// @bounds fragment 40 01 (READ without FIR) from a foreign master
foreign_case!(c07_foreign_non_fir_fin, [0x40u8, 0x01], false);
// @harness c07_foreign_valid_read
// @props C07
// @tier thorough
// @class attempt
// @timeout 600
// @units TransportReader::pop_request, ParsedFragment::parse (real), to_request
// @bounds fragment C0 01 3C 02 06 (class 1 READ) from a foreign master
foreign_case!(c07_foreign_valid_read, [0xC0u8, 0x01, 0x3C, 0x02, 0x06], false);
// @harness c07_broadcast_unknown_function
// @props C07
// @tier thorough
// @class attempt
// @timeout 600
// @units TransportReader::pop_request, ParsedFragment::parse (real), to_request
// @bounds fragment C0 70 received by broadcast from the configured (or any) master: never handed over as an error to answer
foreign_case!(c07_broadcast_unknown_function, [0xC0u8, 0x70], true);
// @harness c07_broadcast_uns_bit
// @props C07
// @tier thorough
// @class attempt
// @timeout 600
// @units TransportReader::pop_request, ParsedFragment::parse (real), to_request
// @bounds fragment D0 02 (WRITE with UNS bit) received by broadcast
foreign_case!(c07_broadcast_uns_bit, [0xD0u8, 0x02], true);
