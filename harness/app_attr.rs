// Harness for dnp3/src/app/attr.rs — device attribute values from untrusted bytes (C01, C09)
use super::*;

// @harness c01_attr_value_parse
// @props C01,C09
// @tier quick
// @timeout 2400
// @mem 8
// @units AttrValue::{parse, parse_unsigned_int, parse_signed_int, parse_floating_point, parse_attr_list}, AttrDataType::get
// @bounds 6 arbitrary bytes (data type, length, up to 4 payload bytes) with the visible-string type excluded (UTF-8 validation of symbolic bytes is a separate, heavy query): never a panic; accepted => exactly 2 + length bytes consumed and the length is legal for the type (integers 1/2/4, floats 4, time 6 - impossible here -, lists even); values decoded little-endian
// @assumes data type code != 1 (VSTR)
#[kani::proof]
#[kani::unwind(8)]
fn c01_attr_value_parse() {
    let b: [u8; 6] = kani::any();
    kani::assume(b[0] != 1);
    let mut c = scursor::ReadCursor::new(&b);
    let r = AttrValue::parse(&mut c);
    let len = b[1] as usize;
    match r {
        Ok(v) => {
            assert!(c.position() == 2 + len && len <= 4);
            match v {
                AttrValue::UnsignedInt(x) => {
                    assert!(b[0] == 2 && (len == 1 || len == 2 || len == 4));
                    let e = match len {
                        1 => b[2] as u32,
                        2 => u16::from_le_bytes([b[2], b[3]]) as u32,
                        _ => u32::from_le_bytes([b[2], b[3], b[4], b[5]]),
                    };
                    assert!(x == e);
                }
                AttrValue::SignedInt(_) => assert!(b[0] == 3 && (len == 1 || len == 2 || len == 4)),
                AttrValue::FloatingPoint(_) => assert!(b[0] == 4 && len == 4),
                AttrValue::OctetString(s) => assert!(b[0] == 5 && s.len() == len),
                AttrValue::BitString(s) => assert!(b[0] == 6 && s.len() == len),
                AttrValue::AttrList(_) => assert!(b[0] == 254 && len % 2 == 0),
                AttrValue::Dnp3Time(_) => panic!("a time needs 6 payload bytes"),
                AttrValue::VisibleString(_) => panic!("excluded"),
            }
            kani::cover!(len == 4);
        }
        Err(_) => {
            kani::cover!(true);
        }
    }
}

// @harness c01_attr_visible_string
// @props C01
// @tier thorough
// @class attempt
// @timeout 1200
// @mem 10
// @units AttrValue::{parse, parse_visible_string}, core::str::from_utf8
// @bounds visible string attribute with 0..=3 arbitrary payload bytes: never a panic; accepted => the bytes are valid UTF-8 of the declared length
#[kani::proof]
#[kani::unwind(8)]
fn c01_attr_visible_string() {
    let p: [u8; 3] = kani::any();
    let len: u8 = kani::any();
    kani::assume(len <= 3);
    let b = [1u8, len, p[0], p[1], p[2]];
    let mut c = scursor::ReadCursor::new(&b);
    if let Ok(AttrValue::VisibleString(s)) = AttrValue::parse(&mut c) {
        assert!(s.len() == len as usize && c.position() == 2 + len as usize);
    }
    kani::cover!(true);
}
