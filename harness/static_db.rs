// Harnesses for dnp3/src/outstation/database/details/range/static_db.rs (+ writer.rs) — C11: a READ is answered with a
// complete, consistent snapshot: every selected existing point exactly once, ascending, with the value it had when the
// request was processed; running out of space resumes exactly where it stopped.
use super::*;
use crate::outstation::database::EventMode;

const IDX: [u16; 3] = [3, 4, 9];

fn any_counter() -> Counter {
    Counter { value: kani::any(), flags: Flags::new(kani::any()), time: None }
}

fn mk_db() -> StaticDatabase {
    let mut db = StaticDatabase::new(None, ClassZeroConfig::default());
    let mut i = 0;
    while i < 3 {
        let cfg = PointConfig::<Counter>::new(None, Deadband::new(0), StaticCounterVariation::Group20Var1, EventCounterVariation::Group22Var1);
        assert!(db.add::<Counter>(IDX[i], cfg));
        i += 1;
    }
    db
}

fn no_event_update() -> UpdateOptions {
    UpdateOptions { update_static: true, event_mode: EventMode::Suppress }
}

/// minimal decoder of what RangeWriter emits for g20v1: [20 1 01 start(2) stop(2)] + 5 bytes per point
/// returns the number of points decoded; fills idx/val/flg in order of appearance
fn decode(bytes: &[u8], len: usize, idx: &mut [u16; 3], val: &mut [u32; 3], flg: &mut [u8; 3]) -> usize {
    let mut pos = 0usize;
    let mut n = 0usize;
    while pos < len {
        assert!(pos + 7 <= len);
        assert!(bytes[pos] == 20 && bytes[pos + 1] == 1 && bytes[pos + 2] == 0x01);
        let start = u16::from_le_bytes([bytes[pos + 3], bytes[pos + 4]]);
        let stop = u16::from_le_bytes([bytes[pos + 5], bytes[pos + 6]]);
        assert!(stop >= start);
        pos += 7;
        let mut k = start;
        loop {
            assert!(pos + 5 <= len && n < 3);
            idx[n] = k;
            flg[n] = bytes[pos];
            val[n] = u32::from_le_bytes([bytes[pos + 1], bytes[pos + 2], bytes[pos + 3], bytes[pos + 4]]);
            n += 1;
            pos += 5;
            if k == stop {
                break;
            }
            k += 1;
        }
    }
    n
}

fn snapshot_and_resume(start: u16, stop: u16) {
    let mut db = mk_db();
    let v0 = [any_counter(), any_counter(), any_counter()];
    let mut i = 0;
    while i < 3 {
        assert!(db.update(&v0[i], IDX[i], no_event_update()).0);
        i += 1;
    }
    let iin2 = db.select_by_type::<Counter>(Some(StaticCounterVariation::Group20Var1), Some(IndexRange::new(start, stop)));
    assert!(iin2.value == 0);
    // the application keeps updating while the response series is in progress
    let mut i = 0;
    while i < 3 {
        let _ = db.update(&any_counter(), IDX[i], no_event_update());
        i += 1;
    }
    // expected snapshot
    let mut exp = [0usize; 3];
    let mut ne = 0;
    let mut i = 0;
    while i < 3 {
        if IDX[i] >= start && IDX[i] <= stop {
            exp[ne] = i;
            ne += 1;
        }
        i += 1;
    }
    // first fragment
    let room: usize = kani::any();
    kani::assume(room <= 40);
    let mut out1 = [0u8; 40];
    let (r1, len1) = {
        let mut c = WriteCursor::new(&mut out1[..room]);
        let r = db.write(&mut c);
        (r, c.position())
    };
    let (mut idx, mut val, mut flg) = ([0u16; 3], [0u32; 3], [0u8; 3]);
    let n1 = decode(&out1, len1, &mut idx, &mut val, &mut flg);
    let mut k = 0;
    while k < n1 {
        assert!(k < ne && idx[k] == IDX[exp[k]] && val[k] == v0[exp[k]].value && flg[k] == v0[exp[k]].flags.value);
        k += 1;
    }
    match r1 {
        Ok(()) => assert!(n1 == ne),
        Err(_) => assert!(n1 < ne),
    }
    // second fragment with plenty of room
    let mut out2 = [0u8; 40];
    let (r2, len2) = {
        let mut c = WriteCursor::new(&mut out2);
        let r = db.write(&mut c);
        (r, c.position())
    };
    assert!(r2.is_ok());
    let (mut idx2, mut val2, mut flg2) = ([0u16; 3], [0u32; 3], [0u8; 3]);
    let n2 = decode(&out2, len2, &mut idx2, &mut val2, &mut flg2);
    assert!(n1 + n2 == ne);
    let mut k = 0;
    while k < n2 {
        let e = exp[n1 + k];
        assert!(idx2[k] == IDX[e] && val2[k] == v0[e].value && flg2[k] == v0[e].flags.value);
        k += 1;
    }
    // nothing is left selected
    let mut out3 = [0u8; 8];
    let mut c3 = WriteCursor::new(&mut out3);
    assert!(db.write(&mut c3).is_ok() && c3.position() == 0);
    kani::cover!(n1 < ne || ne == 0);
    kani::cover!(n1 == ne);
    std::mem::forget(db);
}

// @harness c11_snapshot_and_resume_all
// @props C11
// @tier thorough
// @class attempt
// @timeout 1200
// @mem 10
// @units StaticDatabase::{add, update, select_by_type, push_selection, write, write_range, write_typed_range, reset}, PointMap::select_range_with_variation, SelectionQueue, RangeWriter::{write, try_write, start_header, write_next_value}, is_consecutive, Counter -> Group20Var1
// @bounds a database with counter points at indices 3, 4 and 9 (fixed), ALL values and flags arbitrary; READ g20v1 over the range [0..=65535] (all three points); after the selection every point is updated again with arbitrary values (must not leak into the response); first response fragment has arbitrary room 0..=40 bytes, the second has room for everything: the two fragments together report every point of the range exactly once, in ascending index order, contiguous indices sharing a header, with value and flags as they were when the READ was processed; a fragment reported complete leaves nothing behind; out of space <=> something is left for the next fragment
// @outside FIR/FIN/CON series logic and the confirm gate between fragments (async); other point types (same generic code); symbolic range bounds (B-tree search intractable)
#[kani::proof]
#[kani::unwind(5)]
fn c11_snapshot_and_resume_all() {
    snapshot_and_resume(0, 65535)
}

// @harness c11_snapshot_and_resume_two
// @props C11
// @tier thorough
// @class attempt
// @timeout 1200
// @mem 10
// @units StaticDatabase::{add, update, select_by_type, push_selection, write, write_range, write_typed_range, reset}, PointMap::select_range_with_variation, SelectionQueue, RangeWriter::{write, try_write, start_header, write_next_value}, is_consecutive, Counter -> Group20Var1
// @bounds a database with counter points at indices 3, 4 and 9 (fixed), ALL values and flags arbitrary; READ g20v1 over the range [4..=9] (the points 4 and 9 (not contiguous)); after the selection every point is updated again with arbitrary values (must not leak into the response); first response fragment has arbitrary room 0..=40 bytes, the second has room for everything: the two fragments together report every point of the range exactly once, in ascending index order, contiguous indices sharing a header, with value and flags as they were when the READ was processed; a fragment reported complete leaves nothing behind; out of space <=> something is left for the next fragment
// @outside FIR/FIN/CON series logic and the confirm gate between fragments (async); other point types (same generic code); symbolic range bounds (B-tree search intractable)
#[kani::proof]
#[kani::unwind(5)]
fn c11_snapshot_and_resume_two() {
    snapshot_and_resume(4, 9)
}

// @harness c11_snapshot_and_resume_none
// @props C11
// @tier thorough
// @class attempt
// @timeout 1200
// @mem 10
// @units StaticDatabase::{add, update, select_by_type, push_selection, write, write_range, write_typed_range, reset}, PointMap::select_range_with_variation, SelectionQueue, RangeWriter::{write, try_write, start_header, write_next_value}, is_consecutive, Counter -> Group20Var1
// @bounds a database with counter points at indices 3, 4 and 9 (fixed), ALL values and flags arbitrary; READ g20v1 over the range [5..=8] (no point); after the selection every point is updated again with arbitrary values (must not leak into the response); first response fragment has arbitrary room 0..=40 bytes, the second has room for everything: the two fragments together report every point of the range exactly once, in ascending index order, contiguous indices sharing a header, with value and flags as they were when the READ was processed; a fragment reported complete leaves nothing behind; out of space <=> something is left for the next fragment
// @outside FIR/FIN/CON series logic and the confirm gate between fragments (async); other point types (same generic code); symbolic range bounds (B-tree search intractable)
#[kani::proof]
#[kani::unwind(5)]
fn c11_snapshot_and_resume_none() {
    snapshot_and_resume(5, 8)
}

// @harness c11_snapshot_binary_packed
// @props C11
// @tier thorough
// @class attempt
// @timeout 1200
// @mem 12
// @units StaticDatabase::{add, update, select_by_type, write, write_typed_range}, StaticVariation<BinaryInput>::{promote, get_write_info}, RangeWriter (bit packing + fixed), WireFlags for BinaryInput
// @bounds binary inputs at indices 3 and 4 configured for the packed variation g1v1, values and flags arbitrary; READ of the whole range; BOTH points are updated with arbitrary new values/flags after the selection; one fragment with enough room: the response is byte-for-byte what the values AT SELECTION TIME imply - packed g1v1 only for plainly ONLINE points, g1v2 (flags with the state in bit 7) otherwise, consecutive points of the same variation share a header - and nothing of the later update leaks (neither value, flags nor the choice of variation)
#[kani::proof]
#[kani::unwind(5)]
fn c11_snapshot_binary_packed() {
    let mut db = StaticDatabase::new(None, ClassZeroConfig::default());
    let mut i = 0;
    while i < 2 {
        let cfg = PointConfig::<BinaryInput>::new(None, FlagsDetector, StaticBinaryInputVariation::Group1Var1, EventBinaryInputVariation::Group2Var1);
        assert!(db.add::<BinaryInput>(3 + i, cfg));
        i += 1;
    }
    let v = [
        BinaryInput { value: kani::any(), flags: Flags::new(kani::any()), time: None },
        BinaryInput { value: kani::any(), flags: Flags::new(kani::any()), time: None },
    ];
    assert!(db.update(&v[0], 3, no_event_update()).0 && db.update(&v[1], 4, no_event_update()).0);
    assert!(db.select_by_type::<BinaryInput>(None, Some(IndexRange::new(0, 65535))).value == 0);
    // later updates must not leak
    let w0 = BinaryInput { value: kani::any(), flags: Flags::new(kani::any()), time: None };
    let w1 = BinaryInput { value: kani::any(), flags: Flags::new(kani::any()), time: None };
    let _ = db.update(&w0, 3, no_event_update());
    let _ = db.update(&w1, 4, no_event_update());
    let mut out = [0u8; 24];
    let len = {
        let mut c = WriteCursor::new(&mut out);
        assert!(db.write(&mut c).is_ok());
        c.position()
    };
    // reference encoding (IEEE 1815: g1v1 carries the state only, so it is used only when the flags are plain ONLINE)
    let plain = |b: &BinaryInput| b.flags.value & 0x7F == 0x01;
    let wire_flags = |b: &BinaryInput| (b.flags.value & 0x7F) | if b.value { 0x80 } else { 0 };
    let mut exp = [0u8; 24];
    let n = match (plain(&v[0]), plain(&v[1])) {
        (true, true) => {
            let e = [1, 1, 0x01, 3, 0, 4, 0, (v[0].value as u8) | ((v[1].value as u8) << 1)];
            exp[..8].copy_from_slice(&e);
            8
        }
        (false, false) => {
            let e = [1, 2, 0x01, 3, 0, 4, 0, wire_flags(&v[0]), wire_flags(&v[1])];
            exp[..9].copy_from_slice(&e);
            9
        }
        (true, false) => {
            let e = [1, 1, 0x01, 3, 0, 3, 0, v[0].value as u8, 1, 2, 0x01, 4, 0, 4, 0, wire_flags(&v[1])];
            exp[..16].copy_from_slice(&e);
            16
        }
        (false, true) => {
            let e = [1, 2, 0x01, 3, 0, 3, 0, wire_flags(&v[0]), 1, 1, 0x01, 4, 0, 4, 0, v[1].value as u8];
            exp[..16].copy_from_slice(&e);
            16
        }
    };
    assert!(len == n);
    let mut k = 0;
    while k < 16 {
        if k < n {
            assert!(out[k] == exp[k]);
        }
        k += 1;
    }
    kani::cover!(plain(&v[0]) && !plain(&v[1]));
    kani::cover!(plain(&v[0]) && plain(&v[1]) && !plain(&w0));
    std::mem::forget(db);
}

/// ONE binary input (index 3): which variation goes on the wire, and from which value
fn one_point_case(default_packed: bool, requested: Option<StaticBinaryInputVariation>) {
    let mut db = StaticDatabase::new(None, ClassZeroConfig::default());
    let s_var = if default_packed { StaticBinaryInputVariation::Group1Var1 } else { StaticBinaryInputVariation::Group1Var2 };
    let cfg = PointConfig::<BinaryInput>::new(None, FlagsDetector, s_var, EventBinaryInputVariation::Group2Var1);
    assert!(db.add::<BinaryInput>(3, cfg));
    let v = BinaryInput { value: kani::any(), flags: Flags::new(kani::any()), time: None };
    assert!(db.update(&v, 3, no_event_update()).0);
    assert!(db.select_by_type::<BinaryInput>(requested, Some(IndexRange::new(0, 65535))).value == 0);
    // the application updates the point while the response is pending: nothing of it may show
    let w = BinaryInput { value: kani::any(), flags: Flags::new(kani::any()), time: None };
    let _ = db.update(&w, 3, no_event_update());
    let mut out = [0u8; 12];
    let len = {
        let mut c = WriteCursor::new(&mut out);
        assert!(db.write(&mut c).is_ok());
        c.position()
    };
    let packed_wanted = match requested {
        Some(StaticBinaryInputVariation::Group1Var1) => true,
        Some(StaticBinaryInputVariation::Group1Var2) => false,
        None => default_packed,
    };
    // IEEE 1815: g1v1 has no flag octet, it may stand only for a point whose flags are exactly ONLINE
    let plain = v.flags.value & 0x7F == 0x01;
    if packed_wanted && plain {
        assert!(len == 8);
        assert!(out[0] == 1 && out[1] == 1 && out[2] == 0x01 && out[3] == 3 && out[4] == 0 && out[5] == 3 && out[6] == 0);
        assert!(out[7] == v.value as u8);
    } else {
        assert!(len == 8);
        assert!(out[0] == 1 && out[1] == 2 && out[2] == 0x01 && out[3] == 3 && out[4] == 0 && out[5] == 3 && out[6] == 0);
        assert!(out[7] == (v.flags.value & 0x7F) | if v.value { 0x80 } else { 0 });
    }
    kani::cover!(packed_wanted && !plain);
    kani::cover!(packed_wanted && plain && w.flags.value != v.flags.value);
    std::mem::forget(db);
}

// @harness c11_one_point_requested_packed
// @props C11,C10
// @tier thorough
// @timeout 3600
// @mem 26
// @units StaticDatabase::{add, update, select_by_type, write, write_typed_range}, StaticVariation<BinaryInput>::{promote, get_write_info}, RangeWriter, WireFlags for BinaryInput
// @bounds one binary input (index 3, default variation g1v2), any value and flag octet, READ that explicitly asks for the packed variation g1v1, the point updated with arbitrary new value/flags after the selection: the single-fragment response is byte-for-byte what the value AT SELECTION TIME implies - packed g1v1 only if its flags were exactly ONLINE, otherwise g1v2 with the flags - and nothing of the later update shows (value, flags or choice of variation)
// @outside more than one point (BTreeMap with several entries: attempt-only harnesses; this one-point harness already needs about 35 GB and 24 minutes, which is why it is thorough-tier), multi-fragment resumption of this path, the other seven point types
#[kani::proof]
#[kani::unwind(4)]
fn c11_one_point_requested_packed() {
    one_point_case(false, Some(StaticBinaryInputVariation::Group1Var1))
}

// @harness c11_one_point_default_packed
// @props C11,C10
// @tier thorough
// @timeout 3600
// @mem 26
// @units as c11_one_point_requested_packed
// @bounds as above with g1v1 as the point's configured default and a READ that names no variation
#[kani::proof]
#[kani::unwind(4)]
fn c11_one_point_default_packed() {
    one_point_case(true, None)
}
