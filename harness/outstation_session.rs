// Harnesses for dnp3/src/outstation/session.rs — the SYNCHRONOUS methods of a real OutstationSession:
// C05 (repeat recognition), C12 (response shape, IIN2 on rejection), C13 (IIN truth), C18 (outstation half of time sync),
// C04 (session reset drops the select), C07 (broadcast classified before any response path).
// The async dispatcher (process_request_from_idle, handle_non_read, confirm waits) is out of reach (DESIGN.md §2.9).
use super::*;
use crate::app::parse::options::ParseOptions;
use crate::app::parse::parser::{HeaderCollection, ParsedFragment};
use crate::app::{ObjectParseError, Timestamp};
use crate::outstation::database::ClassZeroConfig;
use crate::outstation::database::EventBufferConfig;
use crate::util::phys::PhysAddr;
use crate::verif_common::*;

static mut APP_IIN: (bool, bool, bool, bool) = (false, false, false, false);
static mut APP_DELAY: u16 = 0;
static mut APP_TIME_WRITTEN: Option<u64> = None;
static mut APP_TIME_RESULT: u8 = 0;
static mut CLEAR_RESTART_CALLS: u8 = 0;
static mut FREEZE_CALLS: u8 = 0;

struct App;
impl OutstationApplication for App {
    fn get_processing_delay_ms(&self) -> u16 {
        unsafe { APP_DELAY }
    }
    fn get_application_iin(&self) -> ApplicationIin {
        let v = unsafe { APP_IIN };
        ApplicationIin { need_time: v.0, local_control: v.1, device_trouble: v.2, config_corrupt: v.3 }
    }
    fn freeze_counter(&mut self, _indices: FreezeIndices, _freeze_type: FreezeType, _database: &mut DatabaseHandle) -> Result<(), RequestError> {
        unsafe { FREEZE_CALLS += 1 };
        Ok(())
    }
    fn write_absolute_time(&mut self, time: Timestamp) -> Result<(), RequestError> {
        unsafe { APP_TIME_WRITTEN = Some(time.raw_value()) };
        match unsafe { APP_TIME_RESULT } {
            0 => Ok(()),
            1 => Err(RequestError::ParameterError),
            _ => Err(RequestError::NotSupported),
        }
    }
}
struct Info;
impl OutstationInformation for Info {
    fn clear_restart_iin(&mut self) {
        unsafe { CLEAR_RESTART_CALLS += 1 };
    }
}

fn mk_session_cfg(unsolicited: bool) -> (OutstationSession, DatabaseHandle) {
    let (_tx, rx) = crate::util::channel::request_channel::<OutstationMessage>();
    let mut config = OutstationConfig::new(EndpointAddress::raw(10), EndpointAddress::raw(1), EventBufferConfig::all_types(2));
    config.keep_alive_timeout = None;
    config.features.unsolicited = if unsolicited { Feature::Enabled } else { Feature::Disabled };
    let db = DatabaseHandle::new(None, ClassZeroConfig::default(), config.event_buffer_config);
    let dest = FragmentAddr { link: config.master_address, phys: PhysAddr::None };
    let s = OutstationSession::new(
        Enabled::Yes,
        rx,
        dest,
        config.into(),
        config.into(),
        Box::new(App),
        Box::new(Info),
        crate::outstation::DefaultControlHandler::create(),
    );
    std::mem::forget(_tx);
    (s, db)
}

fn mk_session() -> (OutstationSession, DatabaseHandle) {
    mk_session_cfg(true)
}

fn frag_info(broadcast: Option<BroadcastConfirmMode>) -> FragmentInfo {
    FragmentInfo::new(kani::any(), FragmentAddr { link: EndpointAddress::raw(1), phys: PhysAddr::None }, broadcast)
}

fn any_broadcast() -> Option<BroadcastConfirmMode> {
    let b: u8 = kani::any();
    kani::assume(b < 4);
    match b {
        0 => None,
        1 => Some(BroadcastConfirmMode::Optional),
        2 => Some(BroadcastConfirmMode::Mandatory),
        _ => Some(BroadcastConfirmMode::NotRequired),
    }
}

fn any_response() -> Option<Response> {
    if kani::any() {
        Some(Response::empty_solicited(Sequence::new(kani::any()), Iin::default()))
    } else {
        None
    }
}

/// classification of one request whose FUNCTION is a constant (symbolic function codes poison every later match)
fn classify_case(function: FunctionCode) {
    let (mut s, db) = mk_session();
    // arbitrary history: nothing, or a last request with any sequence, any digest and any stored response
    let last_seq: u8 = kani::any();
    let last_hash: u64 = kani::any();
    let has_last: bool = kani::any();
    let last_rsp = any_response();
    if has_last {
        s.state.last_valid_request = Some(LastValidRequest::new(Sequence::new(last_seq), last_hash, last_rsp, None));
    }
    // the fragment: control byte arbitrary, function constant, no object bytes (longer fragments make the real xxh64
    // intractable for the SAT back end: 6 symbolic bytes did not finish in 450 s)
    let ctrl: u8 = kani::any();
    let frag = [ctrl, function.as_u8()];
    let objects_ok: bool = kani::any();
    let empty: [u8; 0] = [];
    let objects = if objects_ok { HeaderCollection::parse(ParseOptions::parse_everything(), FunctionCode::Read, &empty) } else { Err(ObjectParseError::UnknownQualifier(kani::any())) };
    let control = ControlField::from(ctrl);
    let request = Request { header: RequestHeader::new(control, function), raw_fragment: &frag, objects };
    let broadcast = any_broadcast();
    let digest = xxh64(&frag, 0);
    let c = s.classify(frag_info(broadcast), request);

    let same = has_last && (last_seq & 0x0F) == (ctrl & 0x0F) && last_hash == digest;
    if function == FunctionCode::Confirm {
        // confirms are never requests to repeat or execute, whatever the history
        match c {
            FragmentType::SolicitedConfirm(q) => assert!(!control.uns && q.value() == ctrl & 0x0F),
            FragmentType::UnsolicitedConfirm(q) => assert!(control.uns && q.value() == ctrl & 0x0F),
            _ => panic!("CONFIRM must classify as a confirm"),
        }
    } else if let Some(mode) = broadcast {
        // C07: a broadcast is classified before any response-producing class
        assert!(matches!(c, FragmentType::Broadcast(m) if m == mode));
    } else if !objects_ok {
        match c {
            FragmentType::MalformedRequest(h, _) => assert!(h == digest),
            _ => panic!("unparsable objects must classify as malformed"),
        }
    } else {
        match c {
            FragmentType::RepeatRead(h, r, _) => {
                assert!(function == FunctionCode::Read && same && h == digest);
                assert!(r.is_some() == last_rsp.is_some());
                if let (Some(a), Some(b)) = (r, last_rsp) {
                    assert!(a.header.control.seq == b.header.control.seq && a.size == b.size);
                }
            }
            FragmentType::RepeatNonRead(h, r) => {
                assert!(function != FunctionCode::Read && same && h == digest);
                assert!(r.is_some() == last_rsp.is_some());
                if let (Some(a), Some(b)) = (r, last_rsp) {
                    assert!(a.header.control.seq == b.header.control.seq && a.size == b.size);
                }
            }
            FragmentType::NewRead(h, _) => assert!(function == FunctionCode::Read && !same && h == digest),
            FragmentType::NewNonRead(h, _) => assert!(function != FunctionCode::Read && !same && h == digest),
            _ => panic!("unexpected class"),
        }
    }
    kani::cover!(same && objects_ok && broadcast.is_none());
    kani::cover!(!same && objects_ok && broadcast.is_none() && has_last && (last_seq & 0x0F) == (ctrl & 0x0F));
    std::mem::forget(s);
    std::mem::forget(db);
}

macro_rules! classify_harness {
    ($name:ident, $f:expr) => {
        #[kani::proof]
        #[kani::unwind(8)]
        fn $name() {
            classify_case($f)
        }
    };
}

// @harness c05_classify_read
// @props C05,C07
// @tier quick
// @timeout 900
// @mem 4
// @units OutstationSession::classify (real session object), xxh64 (real), LastValidRequest
// @bounds function READ constant; 2-byte fragment (control byte arbitrary, no objects), broadcast mode (none/3 modes), history (none / any sequence, any 64-bit digest, stored response or none), object-parse outcome arbitrary: Repeat <=> same sequence AND same xxh64 digest of the whole fragment; READ vs non-READ split; broadcast => Broadcast; parse error => Malformed; the stored response is handed back untouched
// @outside that a recognised repeat is not executed again and that the echo is byte-identical on the wire (async paths)
classify_harness!(c05_classify_read, FunctionCode::Read);
// @harness c05_classify_write
// @props C05,C07
// @tier quick
// @timeout 900
// @mem 4
// @units OutstationSession::classify, xxh64
// @bounds as c05_classify_read with function WRITE
classify_harness!(c05_classify_write, FunctionCode::Write);
// @harness c05_classify_operate
// @props C05,C07,C04
// @tier quick
// @timeout 900
// @mem 4
// @units OutstationSession::classify, xxh64
// @bounds as c05_classify_read with function OPERATE
classify_harness!(c05_classify_operate, FunctionCode::Operate);
// @harness c05_classify_confirm
// @props C05,C12
// @tier quick
// @timeout 900
// @mem 4
// @units OutstationSession::classify
// @bounds function CONFIRM: always a confirm class (solicited/unsolicited by the UNS bit) with the sequence of the control byte, never a repeat, whatever the history and even when received by broadcast
classify_harness!(c05_classify_confirm, FunctionCode::Confirm);
// @harness c05_classify_direct_operate_no_ack
// @props C05,C07
// @tier thorough
// @timeout 900
// @mem 4
// @units OutstationSession::classify, xxh64
// @bounds as c05_classify_read with function DIRECT_OPERATE_NO_RESPONSE
classify_harness!(c05_classify_direct_operate_no_ack, FunctionCode::DirectOperateNoResponse);
// @harness c05_classify_enable_unsolicited
// @props C05,C07
// @tier thorough
// @timeout 900
// @mem 4
// @units OutstationSession::classify, xxh64
// @bounds as c05_classify_read with function ENABLE_UNSOLICITED
classify_harness!(c05_classify_enable_unsolicited, FunctionCode::EnableUnsolicited);

// @harness c05_identical_bytes_are_a_repeat
// @props C05
// @tier thorough
// @timeout 1800
// @mem 4
// @units OutstationSession::classify, xxh64 (real, twice)
// @bounds the same 3 bytes (control and one object byte arbitrary, function WRITE) presented twice with the digest of the first recorded as the session does: second is Repeat; one differing sequence nibble: New.  (differing object bytes with equal digest = hash collision: outside the claim)
#[kani::proof]
#[kani::unwind(8)]
fn c05_identical_bytes_are_a_repeat() {
    let (mut s, db) = mk_session();
    let ctrl: u8 = kani::any();
    let body: u8 = kani::any();
    let frag = [ctrl, 0x02, body];
    let control = ControlField::from(ctrl);
    // what process_request_from_idle stores after handling the first copy
    s.state.last_valid_request = Some(LastValidRequest::new(control.seq, xxh64(&frag, 0), None, None));
    let empty: [u8; 0] = [];
    let second_ctrl: u8 = kani::any();
    let frag2 = [second_ctrl, 0x02, body];
    let request = Request {
        header: RequestHeader::new(ControlField::from(second_ctrl), FunctionCode::Write),
        raw_fragment: &frag2,
        objects: HeaderCollection::parse(ParseOptions::parse_everything(), FunctionCode::Read, &empty),
    };
    let c = s.classify(frag_info(None), request);
    if second_ctrl == ctrl {
        assert!(matches!(c, FragmentType::RepeatNonRead(_, _)));
    }
    if second_ctrl & 0x0F != ctrl & 0x0F {
        assert!(matches!(c, FragmentType::NewNonRead(_, _)));
    }
    kani::cover!(second_ctrl == ctrl);
    std::mem::forget(s);
    std::mem::forget(db);
}

// @harness c13_response_iin
// @props C13,C12
// @tier quick
// @timeout 600
// @mem 4
// @units OutstationSession::get_response_iin, DatabaseHandle::get_events_info, EventBuffer::{unwritten_classes,is_overflown}, ApplicationIin -> Iin
// @bounds real session + real (empty) database; restart flag, pending broadcast (none/3 modes) and the four application bits arbitrary: RESTART <=> flag; BROADCAST <=> a broadcast is pending, and it stays pending only for confirm-mandatory; need-time/local-control/device-trouble/config-corrupt mirror the application; class bits and overflow clear for an empty buffer; called twice to observe the broadcast bit life-cycle
// @outside class/overflow bits with events present: decided on the event buffer itself (c03_ledger_*), the database wrapper only forwards
#[kani::proof]
#[kani::unwind(6)]
fn c13_response_iin() {
    let (mut s, db) = mk_session();
    let restart: bool = kani::any();
    s.state.restart_iin_asserted = restart;
    let bc = any_broadcast();
    s.state.last_broadcast_type = bc;
    let app: (bool, bool, bool, bool) = (kani::any(), kani::any(), kani::any(), kani::any());
    unsafe { APP_IIN = app };
    let iin = s.get_response_iin(&db);
    assert!(iin.iin1.get_device_restart() == restart);
    assert!(iin.iin1.get_broadcast() == bc.is_some());
    assert!(iin.iin1.get_need_time() == app.0);
    assert!(iin.iin1.get_local_control() == app.1);
    assert!(iin.iin1.get_device_trouble() == app.2);
    assert!(iin.iin2.get_config_corrupt() == app.3);
    assert!(!iin.iin1.get_class_1_events() && !iin.iin1.get_class_2_events() && !iin.iin1.get_class_3_events());
    assert!(!iin.iin2.get_event_buffer_overflow());
    // no error bit is invented
    assert!(!iin.iin2.get_no_func_code_support() && !iin.iin2.get_parameter_error() && !iin.iin2.get_object_unknown());
    // second response: the broadcast bit is reported until confirmed only for confirm-mandatory broadcasts
    let iin2 = s.get_response_iin(&db);
    assert!(iin2.iin1.get_broadcast() == (bc == Some(BroadcastConfirmMode::Mandatory)));
    assert!(iin2.iin1.get_device_restart() == restart);
    // a new TCP session does not clear the restart indication
    s.state.reset();
    assert!(s.state.restart_iin_asserted == restart);
    kani::cover!(bc == Some(BroadcastConfirmMode::Mandatory));
    kani::cover!(restart && app.0);
    std::mem::forget(s);
    std::mem::forget(db);
}

// @harness c13_write_iin_restart_bit
// @props C13,C12
// @tier quick
// @timeout 600
// @mem 4
// @units OutstationSession::handle_write_iin, BitSequence::iter, ObjectParser (g80v1 header, constant bytes)
// @bounds WRITE g80v1 range [a..=a+k] (k <= 1, a in {6,7}) with arbitrary bit values: the restart bit is cleared only by writing index 7 to 0 (and the application is told exactly once); any other index or value 1 => PARAMETER_ERROR and, unless index 7 = 0 is also present, the flag stays; errors of several bits are OR-ed
#[kani::proof]
#[kani::unwind(6)]
fn c13_write_iin_restart_bit() {
    let (mut s, db) = mk_session();
    unsafe { CLEAR_RESTART_CALLS = 0 };
    s.state.restart_iin_asserted = true;
    let start: u8 = if kani::any() { 6 } else { 7 };
    let two: bool = kani::any();
    let stop = if two { start + 1 } else { start };
    let bits: u8 = kani::any();
    let data = [bits];
    let mut cursor = scursor::ReadCursor::new(&data);
    let range = crate::app::parse::range::Range::from(start as u16, stop as u16).unwrap();
    let seq = BitSequence::parse(range, &mut cursor).unwrap();
    let iin2 = s.handle_write_iin(seq);
    // reference
    let mut err = false;
    let mut cleared = false;
    let mut i = 0u8;
    while i <= stop - start {
        let idx = start + i;
        let v = bits & (1 << i) != 0;
        if idx == 7 && !v {
            cleared = true;
        } else {
            err = true;
        }
        i += 1;
    }
    assert!(s.state.restart_iin_asserted == !cleared);
    assert!(iin2.get_parameter_error() == err);
    assert!(unsafe { CLEAR_RESTART_CALLS } == cleared as u8);
    assert!(!iin2.get_no_func_code_support() && !iin2.get_object_unknown());
    kani::cover!(cleared && err);
    kani::cover!(!cleared);
    std::mem::forget(s);
    std::mem::forget(db);
}

fn check_empty_solicited(r: &Response, seq: Sequence) {
    assert!(r.header.control.seq.value() == seq.value());
    assert!(!r.header.control.uns && r.header.control.fir && r.header.control.fin && !r.header.control.con);
    assert!(matches!(r.header.function, ResponseFunction::Response));
}

// @harness c12_time_and_restart_responses
// @props C12,C18
// @tier quick
// @timeout 900
// @mem 4
// @units OutstationSession::{handle_delay_measure, handle_record_current_time, handle_restart}, HeaderWriter::write_count_of_one, Response::empty_solicited
// @bounds any request sequence, any application processing delay, restart answer none/seconds/milliseconds with any u16: the response carries the request's sequence, UNS clear, FIR and FIN, no CON; objects are exactly g52v2 (delay measure: the application's delay), g52v1/g52v2 (restart) and re-parse; unsupported restart => NO_FUNC_CODE_SUPPORT; RECORD_CURRENT_TIME records the clock reading, replacing any earlier unconsumed record
// @stubs tokio::time::Instant::now -> harness clock
#[kani::proof]
#[kani::unwind(8)]
#[kani::stub(tokio::time::Instant::now, crate::verif_common::now_fixed)]
fn c12_time_and_restart_responses() {
    let (mut s, db) = mk_session();
    let seq = Sequence::new(kani::any());
    let which: u8 = kani::any();
    kani::assume(which < 3);
    let delay: u16 = kani::any();
    unsafe { APP_DELAY = delay };
    match which {
        0 => {
            let r = s.handle_delay_measure(seq);
            check_empty_solicited(&r, seq);
            assert!(r.header.iin == Iin::default());
            // Response::size counts the 4 header octets (the header itself is written when the response is sent)
            assert!(r.size == ResponseHeader::LENGTH + 6);
            let body = s.sol_tx_buffer.get(r.size).unwrap();
            let objs = &body[ResponseHeader::LENGTH..];
            assert!(objs[0] == 52 && objs[1] == 2 && objs[2] == 0x07 && objs[3] == 1);
            assert!(u16::from_le_bytes([objs[4], objs[5]]) == delay);
        }
        1 => {
            // an earlier RECORD_CURRENT_TIME may have gone unanswered (lost reply, broadcast): the newest one counts
            if kani::any() {
                s.state.last_recorded_time = Some(any_instant());
            }
            let now = set_now_any();
            let r = s.handle_record_current_time(seq);
            check_empty_solicited(&r, seq);
            assert!(r.size == 0 && r.header.iin == Iin::default());
            assert!(s.state.last_recorded_time == Some(now));
        }
        _ => {
            let k: u8 = kani::any();
            kani::assume(k < 3);
            let v: u16 = kani::any();
            let d = match k {
                0 => None,
                1 => Some(RestartDelay::Seconds(v)),
                _ => Some(RestartDelay::Milliseconds(v)),
            };
            let r = s.handle_restart(seq, d);
            check_empty_solicited(&r, seq);
            if k == 0 {
                assert!(r.size == 0 && r.header.iin.iin2.get_no_func_code_support());
            } else {
                assert!(r.size == ResponseHeader::LENGTH + 6 && r.header.iin == Iin::default());
                let body = s.sol_tx_buffer.get(r.size).unwrap();
                let objs = &body[ResponseHeader::LENGTH..];
                assert!(objs[0] == 52 && objs[1] == k && objs[2] == 0x07 && objs[3] == 1);
                assert!(u16::from_le_bytes([objs[4], objs[5]]) == v);
            }
        }
    }
    kani::cover!(which == 2);
    kani::cover!(which == 0);
    std::mem::forget(s);
    std::mem::forget(db);
}

/// ENABLE/DISABLE_UNSOLICITED with object headers given as CONSTANT bytes
fn unsol_case(objects: &[u8], expect_classes: (bool, bool, bool), expect_error: bool) {
    unsol_case_fn(kani::any(), objects, expect_classes, expect_error)
}

/// `enable` given as a CONSTANT keeps the function code stored in the HeaderCollection constant (a symbolic function
/// code makes every header walk split over all function-dependent parse rules: 12 GB in symbolic execution)
fn unsol_case_fn(enable: bool, objects: &[u8], expect_classes: (bool, bool, bool), expect_error: bool) {
    let enabled_cfg: bool = kani::any();
    let (mut s, db) = mk_session_cfg(enabled_cfg);
    let before: (bool, bool, bool) = (kani::any(), kani::any(), kani::any());
    s.state.enabled_unsolicited_classes = EventClasses::new(before.0, before.1, before.2);
    let seq = Sequence::new(kani::any());
    let function = if enable { FunctionCode::EnableUnsolicited } else { FunctionCode::DisableUnsolicited };
    let hc = match HeaderCollection::parse(ParseOptions::parse_everything(), function, objects) {
        Ok(x) => x,
        Err(_) => panic!("test headers are well-formed"),
    };
    let r = s.handle_enable_or_disable_unsolicited(enable, seq, hc);
    check_empty_solicited(&r, seq);
    assert!(r.size == 0);
    let now = s.state.enabled_unsolicited_classes;
    if !enabled_cfg {
        // unsupported by configuration: rejected, nothing changes
        assert!(r.header.iin.iin2.get_no_func_code_support());
        assert!(now.class1 == before.0 && now.class2 == before.1 && now.class3 == before.2);
    } else {
        // every acceptable header takes effect, every unacceptable one is reported - also when it is not the last one
        assert!(r.header.iin.iin2.get_no_func_code_support() == expect_error);
        assert!(now.class1 == if expect_classes.0 { enable } else { before.0 });
        assert!(now.class2 == if expect_classes.1 { enable } else { before.1 });
        assert!(now.class3 == if expect_classes.2 { enable } else { before.2 });
    }
    kani::cover!(enabled_cfg);
    kani::cover!(!enabled_cfg);
    std::mem::forget(s);
    std::mem::forget(db);
}

// @harness c12_unsolicited_not_supported_by_config
// @props C12
// @tier quick
// @timeout 900
// @mem 4
// @units OutstationSession::handle_enable_or_disable_unsolicited (request without object headers)
// @bounds ENABLE_UNSOLICITED and DISABLE_UNSOLICITED, no object headers, any previous class set, any sequence, unsolicited supported by configuration or not: when it is not supported BOTH functions answer IIN2.0 NO_FUNC_CODE_SUPPORT and change nothing; when it is supported an empty request changes nothing and reports no error
// @outside requests with object headers (thorough-tier harnesses below)
#[kani::proof]
#[kani::unwind(8)]
fn c12_unsolicited_not_supported_by_config() {
    unsol_case(&[], (false, false, false), false)
}

// @harness c12_enable_unsolicited_one_class
// @props C12
// @tier thorough
// @class attempt
// @timeout 3600
// @mem 26
// @units OutstationSession::handle_enable_or_disable_unsolicited, HeaderCollection::{parse,iter}
// @bounds ENABLE_UNSOLICITED (constant), one header g60v3 (qualifier 06), any previous class set, unsolicited supported or not, any sequence: exactly class 2 is switched on; response shape
#[kani::proof]
#[kani::unwind(8)]
fn c12_enable_unsolicited_one_class() {
    unsol_case_fn(true, &[60, 3, 0x06], (false, true, false), false)
}
// @harness c12_disable_unsolicited_bad_then_good
// @props C12
// @tier thorough
// @class attempt
// @timeout 1500
// @mem 14
// @units OutstationSession::handle_enable_or_disable_unsolicited, HeaderCollection::{parse,iter}
// @bounds DISABLE_UNSOLICITED (constant), headers g60v1 (class 0: not acceptable) then g60v3: the rejection is reported although the later header is fine, and the good header still takes effect
#[kani::proof]
#[kani::unwind(8)]
fn c12_disable_unsolicited_bad_then_good() {
    unsol_case_fn(false, &[60, 1, 0x06, 60, 3, 0x06], (false, true, false), true)
}

// @harness c12_object_parse_error_to_iin2
// @props C12
// @tier quick
// @timeout 300
// @units impl From<ObjectParseError> for Iin2
// @bounds every kind of object parse error (payload values arbitrary) maps to a NON-EMPTY IIN2 (a malformed request is never answered with a clean response); unknown object => OBJECT_UNKNOWN
#[kani::proof]
#[kani::unwind(4)]
fn c12_object_parse_error_to_iin2() {
    let k: u8 = kani::any();
    kani::assume(k < 10);
    let e = match k {
        0 => ObjectParseError::UnknownGroupVariation(kani::any(), kani::any()),
        1 => ObjectParseError::UnknownQualifier(kani::any()),
        2 => ObjectParseError::InsufficientBytes,
        3 => ObjectParseError::InvalidRange(kani::any(), kani::any()),
        4 => ObjectParseError::InvalidQualifierForVariation(Variation::Group30Var2, QualifierCode::Count8),
        5 => ObjectParseError::UnsupportedQualifierCode(QualifierCode::FreeFormat16),
        6 => ObjectParseError::UnsupportedFreeFormatCount(kani::any()),
        7 => ObjectParseError::ZeroLengthOctetData,
        8 => ObjectParseError::BadAttribute(crate::app::attr::AttrParseError::ReadError),
        _ => ObjectParseError::BadEncoding,
    };
    let iin2 = Iin2::from(e);
    assert!(iin2.value != 0);
    assert!(iin2.get_no_func_code_support() || iin2.get_object_unknown() || iin2.get_parameter_error());
    if k == 0 {
        assert!(iin2.get_object_unknown());
    }
    kani::cover!(k == 9);
    kani::cover!(k == 0);
}

// @harness c12_objects_where_forbidden
// @props C12
// @tier thorough
// @class attempt
// @timeout 1500
// @mem 14
// @units OutstationSession::get_iin2, FunctionCode::get_function_info, HeaderCollection::{parse,is_empty}
// @bounds DELAY_MEASURE and RECORD_CURRENT_TIME (functions that carry no objects) with one object header (constant bytes g60v2/06) => PARAMETER_ERROR; without objects => clean
#[kani::proof]
#[kani::unwind(6)]
fn c12_objects_where_forbidden() {
    let objs = [60u8, 2, 0x06];
    let hc = HeaderCollection::parse(ParseOptions::parse_everything(), FunctionCode::Read, &objs).unwrap();
    assert!(OutstationSession::get_iin2(FunctionCode::DelayMeasure, hc).get_parameter_error());
    assert!(OutstationSession::get_iin2(FunctionCode::RecordCurrentTime, hc).get_parameter_error());
    let empty: [u8; 0] = [];
    let none = HeaderCollection::parse(ParseOptions::parse_everything(), FunctionCode::Read, &empty).unwrap();
    assert!(OutstationSession::get_iin2(FunctionCode::DelayMeasure, none).value == 0);
    assert!(OutstationSession::get_iin2(FunctionCode::Write, hc).value == 0);
    kani::cover!(true);
}

// @harness c18_write_at_last_recorded_time
// @props C18,C12
// @tier quick
// @timeout 900
// @mem 4
// @units OutstationSession::{handle_record_current_time, handle_write_at_last_recorded_time}, CountSequence::single, Timestamp::checked_add, OutstationApplication::write_absolute_time
// @bounds LAN time sync, outstation half: RECORD_CURRENT_TIME at any instant t0, WRITE g50v3 with any 48-bit time T at any later instant t1 = t0 + (0..2^20 s, ms resolution) or one second earlier (clock error): the application receives exactly T + (t1 - t0) in ms, or PARAMETER_ERROR when no time was recorded, the clock went backwards or the sum leaves 48 bits; the record is consumed; the application's verdict maps to IIN2
// @stubs tokio::time::Instant::now -> harness clock
#[kani::proof]
#[kani::unwind(8)]
#[kani::stub(tokio::time::Instant::now, crate::verif_common::now_fixed)]
fn c18_write_at_last_recorded_time() {
    let (mut s, db) = mk_session();
    unsafe { APP_TIME_WRITTEN = None };
    let app_result: u8 = kani::any();
    kani::assume(app_result < 3);
    unsafe { APP_TIME_RESULT = app_result };
    let recorded: bool = kani::any();
    let s0: u32 = kani::any();
    let n0: u32 = kani::any();
    kani::assume(n0 < 1_000_000_000 && s0 < (1 << 30));
    if recorded {
        set_now(s0, n0);
        let _ = s.handle_record_current_time(Sequence::new(0));
    }
    // the WRITE arrives ds seconds + dms milliseconds later (same sub-millisecond phase, so the expected value is exact),
    // or - clock error - one second EARLIER
    let backwards: bool = kani::any();
    let ds: u32 = kani::any();
    let dms: u32 = kani::any();
    kani::assume(ds < (1 << 20) && dms < 1000);
    if backwards {
        kani::assume(s0 >= 1);
        set_now(s0 - 1, n0);
    } else {
        let sum = n0 + dms * 1_000_000;
        let (carry, nn) = if sum >= 1_000_000_000 { (1, sum - 1_000_000_000) } else { (0, sum) };
        set_now(s0 + ds + carry, nn);
    }
    let t: u64 = kani::any();
    kani::assume(t <= Timestamp::MAX_VALUE);
    let wire = t.to_le_bytes();
    let data = [wire[0], wire[1], wire[2], wire[3], wire[4], wire[5]];
    let mut cursor = scursor::ReadCursor::new(&data);
    let seq: CountSequence<Group50Var3> = CountSequence::parse(1, &mut cursor).unwrap();
    let iin2 = s.handle_write_at_last_recorded_time(seq);

    if !recorded || backwards {
        assert!(iin2.get_parameter_error());
        assert!(unsafe { APP_TIME_WRITTEN }.is_none());
    } else {
        let elapsed_ms = ds as u64 * 1000 + dms as u64;
        let expect = t + elapsed_ms;
        if expect > Timestamp::MAX_VALUE {
            assert!(iin2.get_parameter_error() && unsafe { APP_TIME_WRITTEN }.is_none());
        } else {
            assert!(unsafe { APP_TIME_WRITTEN } == Some(expect));
            assert!(s.state.last_recorded_time.is_none());
            match app_result {
                0 => assert!(iin2.value == 0),
                1 => assert!(iin2.get_parameter_error()),
                _ => assert!(iin2.get_no_func_code_support()),
            }
            kani::cover!(elapsed_ms > 0);
        }
    }
    kani::cover!(recorded && backwards);
    std::mem::forget(s);
    std::mem::forget(db);
}

// @harness c04_session_reset_drops_select
// @props C04,C05
// @tier quick
// @timeout 600
// @mem 4
// @units SessionState::reset, SelectState
// @bounds any recorded select and any last request: a new communication session (reset) forgets both, so an OPERATE or a "repeat" after a reconnect can never match state from the old connection
#[kani::proof]
#[kani::unwind(6)]
fn c04_session_reset_drops_select() {
    let (mut s, db) = mk_session();
    s.state.select = Some(SelectState::new(Sequence::new(kani::any()), kani::any(), any_instant(), kani::any()));
    s.state.last_valid_request = Some(LastValidRequest::new(Sequence::new(kani::any()), kani::any(), any_response(), None));
    let uns_seq = s.state.unsolicited_seq.value();
    s.state.reset();
    assert!(s.state.select.is_none() && s.state.last_valid_request.is_none());
    assert!(s.state.unsolicited_seq.value() == uns_seq);
    kani::cover!(true);
    std::mem::forget(s);
    std::mem::forget(db);
}

// @harness c12_freeze_rejected_then_accepted
// @props C12
// @tier thorough
// @class attempt
// @timeout 1500
// @mem 14
// @units OutstationSession::{handle_freeze, handle_freeze_header}, HeaderCollection::{parse,iter}
// @bounds IMMEDIATE_FREEZE / FREEZE_CLEAR with headers g22v0 (not freezable: rejected) then g20v0 (accepted), any sequence: the counters are frozen once AND the rejection is still reported (NO_FUNC_CODE_SUPPORT) - per-header results are OR-ed
#[kani::proof]
#[kani::unwind(8)]
fn c12_freeze_rejected_then_accepted() {
    let (mut s, mut db) = mk_session();
    unsafe { FREEZE_CALLS = 0 };
    let seq = Sequence::new(kani::any());
    let objs = [22u8, 0, 0x06, 20, 0, 0x06];
    let hc = HeaderCollection::parse(ParseOptions::parse_everything(), FunctionCode::ImmediateFreeze, &objs).unwrap();
    let ft = if kani::any() { FreezeType::ImmediateFreeze } else { FreezeType::FreezeAndClear };
    let r = s.handle_freeze(&mut db, seq, hc, ft);
    check_empty_solicited(&r, seq);
    assert!(r.size == 0);
    assert!(r.header.iin.iin2.get_no_func_code_support());
    assert!(unsafe { FREEZE_CALLS } == 1);
    kani::cover!(true);
    std::mem::forget(s);
    std::mem::forget(db);
}

// @harness c12_freeze_at_time_rejected_then_accepted
// @props C12
// @tier thorough
// @class attempt
// @timeout 1500
// @mem 14
// @units OutstationSession::{handle_freeze_at_time, handle_freeze_header}, HeaderCollection::{parse,iter}, CountSequence<Group50Var2>::single
// @bounds FREEZE_AT_TIME with headers g20v0 (before any time object: PARAMETER_ERROR), g50v2 count 1 (arbitrary time and interval), g20v0 (accepted): frozen exactly once and the earlier PARAMETER_ERROR survives the later accepted header
#[kani::proof]
#[kani::unwind(8)]
fn c12_freeze_at_time_rejected_then_accepted() {
    let (mut s, mut db) = mk_session();
    unsafe { FREEZE_CALLS = 0 };
    let seq = Sequence::new(kani::any());
    let t: [u8; 10] = kani::any();
    let objs = [20u8, 0, 0x06, 50, 2, 0x07, 1, t[0], t[1], t[2], t[3], t[4], t[5], t[6], t[7], t[8], t[9], 20, 0, 0x06];
    let hc = HeaderCollection::parse(ParseOptions::parse_everything(), FunctionCode::FreezeAtTime, &objs).unwrap();
    let r = s.handle_freeze_at_time(&mut db, seq, hc);
    check_empty_solicited(&r, seq);
    assert!(r.header.iin.iin2.get_parameter_error());
    assert!(unsafe { FREEZE_CALLS } == 1);
    kani::cover!(true);
    std::mem::forget(s);
    std::mem::forget(db);
}

// @harness c12_write_rejected_then_accepted
// @props C12
// @tier thorough
// @class attempt
// @timeout 1500
// @mem 14
// @units OutstationSession::{handle_write (async, polled once), handle_single_write_header, handle_write_iin}, HeaderCollection::{parse,iter}
// @bounds WRITE with two g80v1 headers: [4..=4]=0 (not writable: PARAMETER_ERROR) then [7..=7]=0 (clears the restart bit: accepted), any sequence: the response must still carry PARAMETER_ERROR (a request of which ANY header is rejected is not answered cleanly) and the restart bit is cleared.  Attempt-and-report: async fn driven by a poll-once executor.
#[kani::proof]
#[kani::unwind(8)]
fn c12_write_rejected_then_accepted() {
    let (mut s, db) = mk_session();
    s.state.restart_iin_asserted = true;
    let seq = Sequence::new(kani::any());
    let objs = [80u8, 1, 0x00, 4, 4, 0x00, 80, 1, 0x00, 7, 7, 0x00];
    let hc = HeaderCollection::parse(ParseOptions::parse_everything(), FunctionCode::Write, &objs).unwrap();
    let r = match poll_once(s.handle_write(seq, hc, &db)) {
        Some(r) => r,
        None => panic!("handle_write must not wait for g80v1 headers"),
    };
    check_empty_solicited(&r, seq);
    assert!(!s.state.restart_iin_asserted);
    assert!(r.header.iin.iin2.get_parameter_error());
    kani::cover!(true);
    std::mem::forget(s);
    std::mem::forget(db);
}

// @harness c12_session_sizes_from_config
// @props C12
// @tier quick
// @timeout 600
// @mem 4
// @units impl From<OutstationConfig> for SessionParameters, impl From<OutstationConfig> for SessionConfig, BufferSize::{new, value}
// @bounds any solicited and unsolicited transmit size 249..=2048, any read-header limit, any confirm/select time-outs and retry settings: the session's solicited buffer is sized from the SOLICITED setting and the unsolicited one from the UNSOLICITED setting (a response is cut to the buffer it is written into, so crossing them lets a fragment exceed the configured size), every other parameter arrives unchanged
#[kani::proof]
#[kani::unwind(4)]
fn c12_session_sizes_from_config() {
    let mut config = OutstationConfig::new(EndpointAddress::raw(10), EndpointAddress::raw(1), EventBufferConfig::all_types(1));
    let a: usize = kani::any();
    let b: usize = kani::any();
    kani::assume(a >= 249 && a <= 2048 && b >= 249 && b <= 2048);
    config.solicited_buffer_size = crate::app::BufferSize::new(a).unwrap();
    config.unsolicited_buffer_size = crate::app::BufferSize::new(b).unwrap();
    let lim: u16 = kani::any();
    let has_lim: bool = kani::any();
    config.max_read_request_headers = if has_lim { Some(lim) } else { None };
    let ct = crate::app::verif_retry::any_duration_ms(3_600_000);
    let st = crate::app::verif_retry::any_duration_ms(3_600_000);
    config.confirm_timeout = crate::app::Timeout(ct);
    config.select_timeout = crate::app::Timeout(st);
    let mc: u16 = kani::any();
    config.max_controls_per_request = Some(mc);
    let p: SessionParameters = config.into();
    let c: SessionConfig = config.into();
    assert!(p.sol_tx_buffer_size.value() == a);
    assert!(p.unsol_tx_buffer_size.value() == b);
    assert!(p.max_read_headers_per_request == if has_lim { lim } else { OutstationConfig::DEFAULT_MAX_READ_REQUEST_HEADERS });
    assert!(c.confirm_timeout == config.confirm_timeout && c.select_timeout == config.select_timeout);
    assert!(c.max_controls_per_request == Some(mc));
    kani::cover!(a < b);
}
