// Harnesses for dnp3/src/link/parser.rs (+ crc.rs, format.rs) — C06 link framing, C01 robustness of the link decoder.
use super::*;
use crate::link::crc::{calc_crc, calc_crc_with_0564, crc_increment};
use crate::link::format::{format_data_frame, format_header_fixed_size, format_header_only, Payload};
use scursor::WriteCursor;

/// Reference: bit-serial CRC-16/DNP (IEEE 1815 / IEC 60870-5-1: x^16+x^13+x^12+x^11+x^10+x^8+x^6+x^5+x^2+1,
/// reflected 0xA6BC, initial value 0, final complement).  Written from the standard, not from crc.rs.
fn ref_crc_update(acc: u16, b: u8) -> u16 {
    let mut crc = acc ^ (b as u16);
    let mut i = 0;
    while i < 8 {
        crc = if crc & 1 != 0 { (crc >> 1) ^ 0xA6BC } else { crc >> 1 };
        i += 1;
    }
    crc
}

fn ref_crc(data: &[u8]) -> u16 {
    let mut crc: u16 = 0;
    for b in data {
        crc = ref_crc_update(crc, *b);
    }
    !crc
}

fn ref_trailer_length(n: usize) -> usize {
    n + 2 * ((n + 15) / 16)
}

// @harness c06_crc_step
// @props C06
// @tier quick
// @timeout 120
// @units link::crc::crc_increment (CRC_TABLE)
// @bounds every accumulator (2^16) x every byte (2^8): one table step == eight bit-serial steps of the reference polynomial; by induction over the length this gives table CRC == reference CRC for every length (the induction itself is an argument, not a solver result)
#[kani::proof]
#[kani::unwind(10)]
fn c06_crc_step() {
    let acc: u16 = kani::any();
    let b: u8 = kani::any();
    assert!(crc_increment(acc, &[b]) == ref_crc_update(acc, b));
    // two bytes in one call == two calls (the loop carries nothing but the accumulator)
    let b2: u8 = kani::any();
    assert!(crc_increment(acc, &[b, b2]) == crc_increment(crc_increment(acc, &[b]), &[b2]));
    kani::cover!(acc != 0 && b != 0);
}

// @harness c06_crc_seed_and_final
// @props C06
// @tier quick
// @timeout 120
// @units link::crc::{calc_crc, calc_crc_with_0564, CRC_OF_0564}
// @bounds 3 arbitrary bytes: seeded variant == CRC over 05 64 + bytes; final complement present
#[kani::proof]
#[kani::unwind(10)]
fn c06_crc_seed_and_final() {
    let d: [u8; 3] = kani::any();
    assert!(calc_crc(&d) == ref_crc(&d));
    assert!(calc_crc_with_0564(&d) == ref_crc(&[0x05, 0x64, d[0], d[1], d[2]]));
    assert!(calc_crc(&[]) == 0xFFFF);
    kani::cover!(d[0] != d[1]);
}

// @harness c06_crc_linear
// @props C06
// @tier quick
// @timeout 120
// @units link::crc::crc_increment
// @bounds all accumulators and bytes: the step is GF(2)-linear, so acceptance of a damaged block <=> zero syndrome of the error pattern (used by the Hamming-distance harnesses)
#[kani::proof]
#[kani::unwind(3)]
fn c06_crc_linear() {
    let a1: u16 = kani::any();
    let a2: u16 = kani::any();
    let b1: u8 = kani::any();
    let b2: u8 = kani::any();
    assert!(crc_increment(a1 ^ a2, &[b1 ^ b2]) == crc_increment(a1, &[b1]) ^ crc_increment(a2, &[b2]));
    assert!(crc_increment(0, &[0]) == 0);
    kani::cover!(a1 != a2);
}

// @harness c06_crc_equiv8
// @props C06
// @tier thorough
// @timeout 600
// @units link::crc::calc_crc
// @bounds 8 arbitrary bytes, direct equivalence with the bit-serial reference (bounded cross-check of the induction)
#[kani::proof]
#[kani::unwind(10)]
fn c06_crc_equiv8() {
    let d: [u8; 8] = kani::any();
    assert!(calc_crc(&d) == ref_crc(&d));
    kani::cover!(d[0] != 0);
}

fn ref_header_crc(h: &[u8; 8]) -> u16 {
    ref_crc(&[0x05, 0x64, h[0], h[1], h[2], h[3], h[4], h[5]])
}

// @harness c06_header_accept_iff
// @props C06,C01
// @tier quick
// @timeout 600
// @units Parser::parse_header, calc_trailer_length, ControlField::from, AnyAddress::from, calc_crc_with_0564
// @bounds the 8 bytes after 05 64 arbitrary, both error modes: accepted <=> length>=5 and CRC == reference; accepted => control/destination/source are the transmitted ones, trailer length = n + 2*ceil(n/16), exactly 8 bytes consumed; rejected => error, never a silent accept
#[kani::proof]
#[kani::unwind(10)]
fn c06_header_accept_iff() {
    let bytes: [u8; 8] = kani::any();
    let mode = if kani::any() { LinkErrorMode::Close } else { LinkErrorMode::Discard };
    let mut p = Parser::new(mode);
    p.state = ParseState::ReadHeader;
    let mut c = ReadCursor::new(&bytes);
    let r = p.parse_header(&mut c);
    let e = ref_header_crc(&bytes);
    let good = bytes[0] >= 5 && bytes[6] == (e & 0xff) as u8 && bytes[7] == (e >> 8) as u8;
    assert!(r.is_ok() == good);
    if r.is_ok() {
        assert!(c.position() == 8);
        match p.state {
            ParseState::ReadBody(h, tl) => {
                assert!(h.control.to_u8() == bytes[1]);
                assert!(h.destination.value() == u16::from_le_bytes([bytes[2], bytes[3]]));
                assert!(h.source.value() == u16::from_le_bytes([bytes[4], bytes[5]]));
                assert!(tl == ref_trailer_length((bytes[0] - 5) as usize));
            }
            _ => panic!("accepted header must move to ReadBody"),
        }
    } else {
        assert!(matches!(p.state, ParseState::ReadHeader));
    }
    kani::cover!(good);
    kani::cover!(!good);
}

// @harness c06_header_needs_8
// @props C06,C01
// @tier quick
// @timeout 120
// @units Parser::parse_header, parse_sync1, parse_sync2
// @bounds step atomicity: with 0..=7 bytes parse_header consumes nothing and keeps its state; sync steps consume exactly one byte or nothing on empty input
#[kani::proof]
#[kani::unwind(10)]
fn c06_header_needs_8() {
    let bytes: [u8; 7] = kani::any();
    let n: usize = kani::any();
    kani::assume(n <= 7);
    let mut p = Parser::new(LinkErrorMode::Close);
    p.state = ParseState::ReadHeader;
    let mut c = ReadCursor::new(&bytes[..n]);
    assert!(p.parse_header(&mut c).is_ok());
    assert!(c.position() == 0);
    assert!(matches!(p.state, ParseState::ReadHeader));
    // sync steps
    let empty: [u8; 0] = [];
    let mut c0 = ReadCursor::new(&empty);
    p.state = ParseState::FindSync1;
    assert!(p.parse_sync1(&mut c0).is_ok() && matches!(p.state, ParseState::FindSync1));
    p.state = ParseState::FindSync2;
    assert!(p.parse_sync2(&mut c0).is_ok() && matches!(p.state, ParseState::FindSync2));
    let x: u8 = kani::any();
    let one = [x];
    let mut c1 = ReadCursor::new(&one);
    p.state = ParseState::FindSync1;
    let r = p.parse_sync1(&mut c1);
    assert!(c1.position() == 1);
    assert!(r.is_ok() == (x == 0x05));
    assert!(if x == 0x05 { matches!(p.state, ParseState::FindSync2) } else { matches!(p.state, ParseState::FindSync1) });
    let mut c2 = ReadCursor::new(&one);
    p.state = ParseState::FindSync2;
    let r = p.parse_sync2(&mut c2);
    assert!(c2.position() == 1);
    assert!(r.is_ok() == (x == 0x64));
    assert!(if x == 0x64 { matches!(p.state, ParseState::ReadHeader) } else { matches!(p.state, ParseState::FindSync2) });
    kani::cover!(x == 0x05);
    kani::cover!(n == 7);
}

/// Syndromes of single-bit errors of the word [data(DATA) | crc(2)], computed with the REAL crc_increment.
/// By linearity (c06_crc_linear) the syndrome of bit b of data byte p is z^(DATA-1-p)(step(0,[1<<b])) with
/// z(acc) = crc_increment(acc,[0]); the two CRC bytes contribute their own bits.
macro_rules! hd4_harness {
    ($name:ident, $data:expr, $bits:expr, $unw:expr) => {
        #[kani::proof]
        #[kani::unwind($unw)]
        fn $name() {
            const DATA: usize = $data;
            const BITS: usize = $bits;
            let mut syn = [0u16; BITS];
            let mut b = 0;
            while b < 8 {
                let mut acc = crc_increment(0, &[1u8 << b]);
                let mut p = DATA;
                while p > 0 {
                    p -= 1;
                    syn[p * 8 + b] = acc;
                    acc = crc_increment(acc, &[0]);
                }
                syn[DATA * 8 + b] = 1u16 << b;
                syn[DATA * 8 + 8 + b] = 1u16 << (8 + b);
                b += 1;
            }
            // spot-check the construction against the direct definition for one symbolic bit of the first byte
            let k: usize = kani::any();
            kani::assume(k < 8);
            let mut w = [0u8; DATA];
            w[0] = 1 << k;
            assert!(syn[k] == crc_increment(0, &w));
            let i1: usize = kani::any();
            let i2: usize = kani::any();
            let i3: usize = kani::any();
            kani::assume(i1 < BITS && i2 < BITS && i3 < BITS && i1 < i2 && i2 < i3);
            assert!(syn[i1] != 0 && syn[i2] != 0 && syn[i3] != 0);
            assert!(syn[i1] ^ syn[i2] != 0 && syn[i2] ^ syn[i3] != 0 && syn[i1] ^ syn[i3] != 0);
            assert!(syn[i1] ^ syn[i2] ^ syn[i3] != 0);
            kani::cover!(i3 == BITS - 1);
        }
    };
}

// @harness c06_hd4_header
// @props C06
// @tier quick
// @timeout 900
// @mem 4
// @units link::crc::crc_increment (syndrome table built by the real code)
// @bounds header word = 8 data bytes (05 64 + 6) + 2 CRC bytes = 80 bits: no error pattern of weight 1, 2 or 3 has a zero syndrome (with linearity: none is accepted)
hd4_harness!(c06_hd4_header, 8, 80, 20);

// @harness c06_hd4_block16
// @props C06
// @tier thorough
// @timeout 2400
// @mem 4
// @units link::crc::crc_increment
// @bounds full body block = 16 data + 2 CRC bytes = 144 bits, weight 1..=3 error patterns
hd4_harness!(c06_hd4_block16, 16, 144, 20);

include!(concat!(env!("VERIF_GEN_DIR"), "/link_parser_gen.rs"));

// @harness c06_body_real_crc_short
// @props C06,C01
// @tier quick
// @timeout 900
// @units Parser::parse_body, FramePayload::push, calc_crc (real CRC)
// @bounds one short block: 3 data bytes + 2 CRC bytes, all arbitrary, both modes: accepted <=> CRC == reference; accepted => payload == data; rejected => BadBodyCrc
#[kani::proof]
#[kani::unwind(20)]
fn c06_body_real_crc_short() {
    let bytes: [u8; 5] = kani::any();
    let mut p = Parser::new(LinkErrorMode::Close);
    let mut payload = FramePayload::new();
    let mut c = ReadCursor::new(&bytes);
    let r = p.parse_body(5, &mut c, &mut payload);
    let e = ref_crc(&bytes[0..3]);
    let good = bytes[3] == (e & 0xff) as u8 && bytes[4] == (e >> 8) as u8;
    match r {
        Ok(Some(())) => {
            assert!(good);
            assert!(payload.get().len() == 3);
            assert!(payload.get()[0] == bytes[0] && payload.get()[1] == bytes[1] && payload.get()[2] == bytes[2]);
            assert!(matches!(p.state, ParseState::FindSync1));
        }
        Ok(None) => panic!("enough bytes were supplied"),
        Err(ParseError::BadFrame(FrameError::BadBodyCrc)) => assert!(!good),
        Err(_) => panic!("unexpected error kind"),
    }
    kani::cover!(good);
    kani::cover!(!good);
}

// @harness c06_body_real_crc_full
// @props C06,C01
// @tier thorough
// @timeout 1800
// @mem 6
// @units Parser::parse_body, FramePayload::push, calc_crc (real CRC)
// @bounds one full block: 16 data bytes + 2 CRC bytes, all arbitrary
#[kani::proof]
#[kani::unwind(20)]
fn c06_body_real_crc_full() {
    let bytes: [u8; 18] = kani::any();
    let mut p = Parser::new(LinkErrorMode::Close);
    let mut payload = FramePayload::new();
    let mut c = ReadCursor::new(&bytes);
    let r = p.parse_body(18, &mut c, &mut payload);
    let e = ref_crc(&bytes[0..16]);
    let good = bytes[16] == (e & 0xff) as u8 && bytes[17] == (e >> 8) as u8;
    match r {
        Ok(Some(())) => {
            assert!(good);
            assert!(payload.get().len() == 16);
            let mut i = 0;
            while i < 16 {
                assert!(payload.get()[i] == bytes[i]);
                i += 1;
            }
        }
        Ok(None) => panic!("enough bytes were supplied"),
        Err(_) => assert!(!good),
    }
    kani::cover!(good);
}

/// cheap deterministic stand-in for the CRC inside framing loops (framing is parametric in the checksum;
/// the real CRC is covered by c06_crc_* and c06_body_real_crc_*)
pub(crate) fn crc_stub(slice: &[u8]) -> u16 {
    let first = if slice.is_empty() { 0 } else { slice[0] as u16 };
    let last = if slice.is_empty() { 0 } else { slice[slice.len() - 1] as u16 };
    0x1234 ^ (slice.len() as u16) ^ (first << 8) ^ last
}
pub(crate) fn crc0564_stub(slice: &[u8]) -> u16 {
    crc_stub(slice) ^ 0x5555
}

/// leave 0..=2 arbitrary stale bytes in the payload object (what the previous frame delivered)
fn prefill(payload: &mut FramePayload) {
    let stale: [u8; 2] = kani::any();
    let n: usize = kani::any();
    kani::assume(n <= 2);
    assert!(payload.push(&stale[..n]).is_ok());
}

/// parse_body on exactly one frame body carrying N payload bytes, checksum abstracted
fn body_framing<const N: usize, const T: usize>() {
    assert!(T == Parser::calc_trailer_length(N as u8));
    assert!(T == ref_trailer_length(N));
    let bytes: [u8; T] = kani::any();
    let mut p = Parser::new(LinkErrorMode::Close);
    let mut payload = FramePayload::new();
    // the payload object is reused from frame to frame: it may still hold the previous frame's bytes
    prefill(&mut payload);
    let mut c = ReadCursor::new(&bytes);
    let r = p.parse_body(T, &mut c, &mut payload);
    // reference de-framing
    let mut ok = true;
    let mut pos = 0usize;
    let mut out = 0usize;
    while out < N {
        let dl = if N - out >= 16 { 16 } else { N - out };
        let s = crc_stub(&bytes[pos..pos + dl]);
        if bytes[pos + dl] != (s & 0xff) as u8 || bytes[pos + dl + 1] != (s >> 8) as u8 {
            ok = false;
        }
        pos += dl + 2;
        out += dl;
    }
    match r {
        Ok(Some(())) => {
            assert!(ok);
            assert!(c.position() == T);
            assert!(payload.get().len() == N);
            // payload byte j is body byte j + 2*(j/16)
            let j: usize = kani::any();
            kani::assume(j < N);
            assert!(payload.get()[j] == bytes[j + 2 * (j / 16)]);
        }
        Ok(None) => panic!("enough bytes were supplied"),
        Err(_) => assert!(!ok),
    }
    kani::cover!(ok);
    kani::cover!(!ok || N == 0);
}

/// parse_body with one byte less than needed: nothing consumed, nothing changes
fn body_short<const T: usize>() {
    let bytes: [u8; T] = kani::any();
    let mut p = Parser::new(LinkErrorMode::Close);
    let h = Header::new(ControlField::from(kani::any()), AnyAddress::from(kani::any()), AnyAddress::from(kani::any()));
    p.state = ParseState::ReadBody(h, T);
    let mut payload = FramePayload::new();
    let mut c = ReadCursor::new(&bytes[..T - 1]);
    let r = p.parse_body(T, &mut c, &mut payload);
    assert!(matches!(r, Ok(None)));
    assert!(c.position() == 0);
    assert!(matches!(p.state, ParseState::ReadBody(_, t) if t == T));
}

/// format_data_frame -> parse_header + parse_body, checksum abstracted on both sides
fn roundtrip<const N: usize, const T: usize>() {
    let ctrl: u8 = kani::any();
    let dest: u16 = kani::any();
    let src: u16 = kani::any();
    let header = Header::new(ControlField::from(ctrl), AnyAddress::from(dest), AnyAddress::from(src));
    let tb: u8 = kani::any();
    let data: [u8; N] = kani::any();
    let mut buffer = [0u8; 292];
    let mut cursor = WriteCursor::new(&mut buffer);
    let len = match format_data_frame(header, Payload::new(tb, &data), &mut cursor) {
        Ok(f) => f.frame.len(),
        Err(_) => panic!("formatting a legal payload must succeed"),
    };
    assert!(len == 10 + T);
    assert!(buffer[0] == 0x05 && buffer[1] == 0x64 && buffer[2] as usize == 5 + N + 1);
    let mut p = Parser::new(LinkErrorMode::Close);
    let mut payload = FramePayload::new();
    // lengths are proved equal to constants above and then used as constants (values that travel through memory come
    // back symbolic and would make every later loop bound symbolic)
    let mut c = ReadCursor::new(&buffer[..10 + T]);
    // the four steps parse_impl dispatches to, in order (the dispatch loop itself: c06_resync_automaton / c06_close_mode_sync_errors)
    assert!(p.parse_sync1(&mut c).is_ok() && matches!(p.state, ParseState::FindSync2));
    assert!(p.parse_sync2(&mut c).is_ok() && matches!(p.state, ParseState::ReadHeader));
    assert!(p.parse_header(&mut c).is_ok());
    let h = match p.state {
        ParseState::ReadBody(h, tl) => {
            assert!(tl == T);
            h
        }
        _ => panic!("a header the library formats must be accepted"),
    };
    assert!(c.position() == 10);
    match p.parse_body(T, &mut c, &mut payload) {
        Ok(Some(())) => {
            assert!(h.control.to_u8() == header.control.to_u8());
            assert!(h.destination.value() == dest && h.source.value() == src);
            assert!(c.position() == 10 + T);
            assert!(payload.get().len() == N + 1);
            assert!(payload.get()[0] == tb);
            kani::cover!(true);
            if N > 0 {
                let j: usize = kani::any();
                kani::assume(j < N);
                assert!(payload.get()[j + 1] == data[j]);
            }
        }
        _ => panic!("a frame the library formats must parse back"),
    }
}

// @harness c06_body_empty_clears_payload
// @props C06,C01
// @tier quick
// @timeout 300
// @units Parser::parse_body (trailer length 0), FramePayload::{push, clear, get}
// @bounds a header-only frame (no body) parsed into a payload object that still holds 0..=2 arbitrary bytes of the previous frame: the delivered payload is EMPTY, the parser returns to the sync search, nothing is consumed
#[kani::proof]
#[kani::unwind(6)]
fn c06_body_empty_clears_payload() {
    let mut p = Parser::new(if kani::any() { LinkErrorMode::Close } else { LinkErrorMode::Discard });
    let h = Header::new(ControlField::from(kani::any()), AnyAddress::from(kani::any()), AnyAddress::from(kani::any()));
    p.state = ParseState::ReadBody(h, 0);
    let mut payload = FramePayload::new();
    prefill(&mut payload);
    let rest: [u8; 2] = kani::any();
    let mut c = ReadCursor::new(&rest);
    assert!(matches!(p.parse_body(0, &mut c, &mut payload), Ok(Some(()))));
    assert!(payload.get().is_empty());
    assert!(c.position() == 0);
    assert!(matches!(p.state, ParseState::FindSync1));
    kani::cover!(true);
}

// @harness c06_format_header_matches_reference
// @props C06
// @tier quick
// @timeout 900
// @units format::format_header_only, format_header_fixed_size, format_frame, calc_crc, calc_crc_with_0564, ControlField::to_u8
// @bounds every control byte, destination and source: both header formatters emit 05 64 05 ctrl dest(LE) src(LE) + the reference CRC (LE).  With c06_header_accept_iff (accepted <=> CRC == reference, fields decoded as transmitted) this is the header round trip; the two real-CRC computations are deliberately not put into one query.
#[kani::proof]
#[kani::unwind(12)]
fn c06_format_header_matches_reference() {
    let ctrl: u8 = kani::any();
    let dest: u16 = kani::any();
    let src: u16 = kani::any();
    let header = Header::new(ControlField::from(ctrl), AnyAddress::from(dest), AnyAddress::from(src));
    // every control byte and address survives the typed representation
    assert!(header.control.to_u8() == ctrl);
    assert!(header.destination.value() == dest && header.source.value() == src);
    let mut b1 = [0u8; 10];
    format_header_fixed_size(header, &mut b1);
    let mut b2 = [0u8; 10];
    {
        let mut cursor = WriteCursor::new(&mut b2);
        match format_header_only(header, &mut cursor) {
            Ok(f) => assert!(f.frame.len() == 10),
            Err(_) => panic!("header-only frame must format"),
        }
    }
    let d = dest.to_le_bytes();
    let sb = src.to_le_bytes();
    let e = ref_crc(&[0x05, 0x64, 5, ctrl, d[0], d[1], sb[0], sb[1]]);
    let expect = [0x05, 0x64, 5, ctrl, d[0], d[1], sb[0], sb[1], (e & 0xff) as u8, (e >> 8) as u8];
    let mut i = 0;
    while i < 10 {
        assert!(b1[i] == expect[i]);
        assert!(b2[i] == expect[i]);
        i += 1;
    }
    kani::cover!(true);
}

// ---------------------------------------------------------------------------------------- resynchronisation
/// reference matcher for the pattern 05 64: 0 = nothing matched, 1 = "05" matched, 2 = "05 64" matched
fn kmp(k: u8, x: u8) -> u8 {
    match (k, x) {
        (2, _) => 2,
        (1, 0x64) => 2,
        (_, 0x05) => 1,
        _ => 0,
    }
}

fn sync_state_of(p: &Parser) -> u8 {
    match p.state {
        ParseState::FindSync1 => 0,
        ParseState::FindSync2 => 1,
        ParseState::ReadHeader => 2,
        ParseState::ReadBody(_, _) => 3,
    }
}

/// Used only where the stubbed function cannot be reached with the bytes the harness supplies (fewer than 8 after the
/// sync bytes): they cut dead code out of the unrolled dispatch loop and behave exactly like the real functions on
/// every reachable path, so counterexamples of these harnesses replay natively against the real functions.
fn body_never(_p: &mut Parser, _tl: usize, _c: &mut ReadCursor, _pl: &mut FramePayload) -> Result<Option<()>, ParseError> {
    Ok(None)
}
fn header_needs_more(_p: &mut Parser, c: &mut ReadCursor) -> Result<(), ParseError> {
    assert!(c.remaining() < 8);
    Ok(())
}

// @harness c06_resync_automaton
// @props C06,C01
// @tier quick
// @timeout 600
// @progress link::parser::Parser::parse
// @units Parser::parse (Discard mode), parse_impl, parse_sync1, parse_sync2, ReadCursor::transaction
// @stubs parse_header -> "needs more bytes" (asserts fewer than 8 remain: exact on every reachable path); parse_body -> unreachable
// @bounds discard mode; parser in FindSync1 or FindSync2 (i.e. any read history that ended inside the sync search); ONE call with 1 or 2 arbitrary bytes: the state afterwards is the state of the reference matcher for 05 64 over (bytes already matched + new bytes) and every byte up to the match is consumed.  Chunk-independence of the sync search follows by induction over calls (an argument, not a solver result).  Progress: the dispatch loops of parse/parse_impl finish within 4 iterations for these 1..2 bytes - the unwinding assertion of those loops is part of the claim ('never spins'), a failure there is reported as a violation
#[kani::proof]
#[kani::unwind(5)]
#[kani::stub(Parser::parse_body, body_never)]
#[kani::stub(Parser::parse_header, header_needs_more)]
fn c06_resync_automaton() {
    let mut p = Parser::new(LinkErrorMode::Discard);
    let start_sync2: bool = kani::any();
    p.state = if start_sync2 { ParseState::FindSync2 } else { ParseState::FindSync1 };
    let b: [u8; 2] = kani::any();
    let two: bool = kani::any();
    let mut payload = FramePayload::new();
    let n = if two { 2 } else { 1 };
    let (r, consumed) = if two {
        let mut c = ReadCursor::new(&b[..]);
        let r = p.parse(&mut c, &mut payload);
        (r, c.position())
    } else {
        let mut c = ReadCursor::new(&b[..1]);
        let r = p.parse(&mut c, &mut payload);
        (r, c.position())
    };
    assert!(matches!(r, Ok(None)));
    let mut k: u8 = if start_sync2 { 1 } else { 0 };
    let mut used = 0;
    let mut i = 0;
    while i < n {
        if k != 2 {
            k = kmp(k, b[i]);
            used += 1;
        }
        i += 1;
    }
    assert!(sync_state_of(&p) == k);
    assert!(consumed == used);
    kani::cover!(k == 2);
    kani::cover!(start_sync2 && b[0] == 0x05);
}

// @harness c06_close_mode_sync_errors
// @props C06,C01
// @tier quick
// @timeout 300
// @progress link::parser::Parser::parse
// @units Parser::parse (Close mode), parse_impl
// @stubs parse_header -> "needs more bytes" (exact: fewer than 8 remain); parse_body -> unreachable
// @bounds close mode, from FindSync1/FindSync2, 1..=2 arbitrary bytes: a wrong start byte is reported as an error (session ends cleanly), never skipped silently and never a panic
#[kani::proof]
#[kani::unwind(5)]
#[kani::stub(Parser::parse_body, body_never)]
#[kani::stub(Parser::parse_header, header_needs_more)]
fn c06_close_mode_sync_errors() {
    let mut p = Parser::new(LinkErrorMode::Close);
    let start_sync2: bool = kani::any();
    p.state = if start_sync2 { ParseState::FindSync2 } else { ParseState::FindSync1 };
    let b: [u8; 2] = kani::any();
    let mut payload = FramePayload::new();
    let mut c = ReadCursor::new(&b[..]);
    let r = p.parse(&mut c, &mut payload);
    let first_ok = if start_sync2 { b[0] == 0x64 } else { b[0] == 0x05 };
    let second_ok = if start_sync2 { true } else { b[1] == 0x64 };
    if first_ok && second_ok {
        assert!(matches!(r, Ok(None)));
        assert!(sync_state_of(&p) == 2);
    } else {
        assert!(matches!(r, Err(ParseError::BadFrame(_))));
    }
    kani::cover!(first_ok && second_ok);
    kani::cover!(!first_ok);
}
