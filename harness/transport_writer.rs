// Harness for dnp3/src/transport/real/writer.rs — C08 segmentation arithmetic.  Writer::write itself is async I/O; the
// statements that decide which segment carries FIR/FIN are extracted VERBATIM from its source by bin/gen_writer.py and
// compiled into this harness (fail closed when the source no longer has that shape).
use super::*;

static ZEROS: [u8; 2048] = [0u8; 2048];

// @harness c08_writer_segmentation
// @props C08
// @tier quick
// @timeout 1200
// @units Writer::write (the chunking statements and the Header::new(fin, fir, seq) arguments, extracted verbatim), slice::chunks, Sequence::increment, Header::{new,to_u8,from_u8}
// @bounds every fragment length 1..=2048 (symbolic), every segment position (symbolic), any starting transport sequence: segments carry at most 249 bytes, FIR exactly on the first, FIN exactly on the last (so every fragment, including exact multiples of 249, ends with a FIN segment), sequence numbers consecutive mod 64
// @outside the async write loop itself and the link framing of each segment (c06_roundtrip_*)
#[kani::proof]
#[kani::unwind(4)]
fn c08_writer_segmentation() {
    let len: usize = kani::any();
    kani::assume(len >= 1 && len <= 2048);
    let fragment: &[u8] = &ZEROS[..len];
    let n = (len + 248) / 249; // number of segments a correct writer produces
    let count: usize = kani::any();
    kani::assume(count < n);
    let mut seq = Sequence::new(kani::any());
    let first_seq = seq.value();
    let (fin, fir, max_chunk) = include!(concat!(env!("VERIF_GEN_DIR"), "/writer_segmentation_expr.rs"));
    assert!(max_chunk == 249);
    assert!(fir == (count == 0));
    assert!(fin == (count == n - 1));
    // sequence: increment() hands out the current value and advances mod 64
    let h = Header::new(fin, fir, seq.increment());
    assert!(h.seq.value() == first_seq && seq.value() == (first_seq + 1) % 64);
    let back = Header::from_u8(h.to_u8());
    assert!(back.fin == fin && back.fir == fir && back.seq.value() == first_seq);
    kani::cover!(len % 249 == 0 && fin);
    kani::cover!(n == 9 && count == 4);
    kani::cover!(first_seq == 63);
}
