use super::*;
use crate::verif_common::*;

// @harness c04_match_operate
// @props C04
// @tier quick
// @timeout 120
// @units SelectState::match_operate, Sequence::next, tokio Instant::checked_duration_since
// @bounds select instant and current instant: any (secs < 2^32, any nanos); timeout 1 ms..=1 h; all sequences, frame ids, hashes
// @stubs tokio::time::Instant::now -> harness-controlled clock (set to an arbitrary instant)
#[kani::proof]
#[kani::unwind(3)]
#[kani::stub(tokio::time::Instant::now, crate::verif_common::now_fixed)]
fn c04_match_operate() {
    let t0 = any_instant();
    let seq0 = Sequence::new(kani::any());
    let fid: u32 = kani::any();
    let h: u64 = kani::any();
    let s = SelectState::new(seq0, fid, t0, h);
    let timeout_ms: u32 = kani::any();
    kani::assume(timeout_ms >= 1 && timeout_ms <= 3_600_000);
    let timeout = Timeout(dur_ms(timeout_ms as u64));
    let seq1 = Sequence::new(kani::any());
    let fid1: u32 = kani::any();
    let h1: u64 = kani::any();
    // the instant the stubbed clock will return
    let now = set_now_any();
    assert!(tokio::time::Instant::now() == now);
    let r = s.match_operate(timeout, seq1, fid1, h1);

    let seq_ok = seq1.value() == (seq0.value() + 1) % 16;
    let fid_ok = fid1 == fid.wrapping_add(1);
    let hash_ok = h1 == h;
    let fresh = match now.checked_duration_since(t0) {
        None => false,
        Some(d) => d <= dur_ms(timeout_ms as u64),
    };
    let expected = if !(seq_ok && fid_ok && hash_ok) {
        Err(CommandStatus::NoSelect)
    } else if !fresh {
        Err(CommandStatus::Timeout)
    } else {
        Ok(())
    };
    assert!(r == expected);
    kani::cover!(r.is_ok());
    kani::cover!(r == Err(CommandStatus::Timeout));
    kani::cover!(r == Err(CommandStatus::NoSelect));
}

// @harness c04_update_frame_id
// @props C04
// @tier quick
// @timeout 60
// @units SelectState::update_frame_id
// @bounds all field values
#[kani::proof]
#[kani::unwind(3)]
fn c04_update_frame_id() {
    let t0 = any_instant();
    let seq0 = Sequence::new(kani::any());
    let h: u64 = kani::any();
    let mut s = SelectState::new(seq0, kani::any(), t0, h);
    let nf: u32 = kani::any();
    s.update_frame_id(nf);
    assert!(s.frame_id == nf);
    assert!(s.seq.value() == seq0.value());
    assert!(s.object_hash == h);
    assert!(s.time == t0);
    kani::cover!(true);
}
