// Harnesses for dnp3/src/app/format/write.rs — C09 "what one side encodes the other side's parser decodes" (encoder ->
// parser direction for the request builders' primitives), C15 (CONFIRM fragments)
use super::*;
use crate::app::gen::all::AllObjectsVariation;
use crate::app::gen::count::CountVariation;
use crate::app::gen::ranged::RangedVariation;
use crate::app::parse::options::ParseOptions;
use crate::app::parse::parser::{HeaderCollection, HeaderDetails, ParsedFragment};
use crate::app::variations::*;
use crate::app::Timestamp;

fn only_header<'a>(function: FunctionCode, bytes: &'a [u8]) -> crate::app::parse::parser::ObjectHeader<'a> {
    let hc = match HeaderCollection::parse(ParseOptions::parse_everything(), function, bytes) {
        Ok(x) => x,
        Err(_) => panic!("the library's parser rejected what the library's encoder wrote"),
    };
    match hc.get_only_header() {
        Ok(h) => h,
        Err(_) => panic!("exactly one header was written"),
    }
}

// @harness c09_enc_range_only_u8
// @props C09
// @tier quick
// @timeout 1800
// @mem 4
// @units HeaderWriter::write_range_only::<u8>, Index::RANGE_QUALIFIER, Variation::write, HeaderCollection::{parse, get_only_header}
// @bounds READ header g30v0 with any 8-bit range start <= stop: parsed back as a one-byte start-stop header with the same variation and bounds, every byte consumed
#[kani::proof]
#[kani::unwind(6)]
fn c09_enc_range_only_u8() {
    let start: u8 = kani::any();
    let stop: u8 = kani::any();
    kani::assume(start <= stop);
    let mut buf = [0u8; 8];
    let n = {
        let mut c = WriteCursor::new(&mut buf);
        let mut w = HeaderWriter::new(&mut c);
        assert!(w.write_range_only(Variation::Group30Var0, start, stop).is_ok());
        c.position()
    };
    assert!(n == 5);
    // the header octets are proved equal to constants and handed to the parser AS constants (bytes read back from the
    // cursor's buffer are symbolic for the engine and would drag every variation's parser into the query)
    assert!(buf[0] == 30 && buf[1] == 0 && buf[2] == 0x00);
    let frag = [30u8, 0, 0x00, buf[3], buf[4]];
    let h = only_header(FunctionCode::Read, &frag);
    assert!(h.variation == Variation::Group30Var0);
    assert!(matches!(h.details, HeaderDetails::OneByteStartStop(s, e, RangedVariation::Group30Var0) if s == start && e == stop));
    kani::cover!(start < stop);
}

// @harness c09_enc_range_only_u16
// @props C09
// @tier quick
// @timeout 1800
// @mem 4
// @units HeaderWriter::write_range_only::<u16>, Index::RANGE_QUALIFIER
// @bounds READ header g20v0 with any 16-bit range start <= stop (incl. 65535)
#[kani::proof]
#[kani::unwind(6)]
fn c09_enc_range_only_u16() {
    let start: u16 = kani::any();
    let stop: u16 = kani::any();
    kani::assume(start <= stop);
    let mut buf = [0u8; 8];
    let n = {
        let mut c = WriteCursor::new(&mut buf);
        let mut w = HeaderWriter::new(&mut c);
        assert!(w.write_range_only(Variation::Group20Var0, start, stop).is_ok());
        c.position()
    };
    assert!(n == 7);
    assert!(buf[0] == 20 && buf[1] == 0 && buf[2] == 0x01);
    let frag = [20u8, 0, 0x01, buf[3], buf[4], buf[5], buf[6]];
    let h = only_header(FunctionCode::Read, &frag);
    assert!(matches!(h.details, HeaderDetails::TwoByteStartStop(s, e, RangedVariation::Group20Var0) if s == start && e == stop));
    kani::cover!(stop == 65535);
}

// @harness c09_enc_limited_count_u8
// @props C09
// @tier quick
// @timeout 1800
// @mem 4
// @units HeaderWriter::write_limited_count::<u8>, Index::LIMITED_COUNT_QUALIFIER
// @bounds READ header g2v0 limited to any 8-bit count: parsed back as a one-byte count header with that count
#[kani::proof]
#[kani::unwind(6)]
fn c09_enc_limited_count_u8() {
    let count: u8 = kani::any();
    let mut buf = [0u8; 8];
    let n = {
        let mut c = WriteCursor::new(&mut buf);
        let mut w = HeaderWriter::new(&mut c);
        assert!(w.write_limited_count(Variation::Group2Var0, count).is_ok());
        c.position()
    };
    assert!(n == 4);
    assert!(buf[0] == 2 && buf[1] == 0 && buf[2] == 0x07);
    let frag = [2u8, 0, 0x07, buf[3]];
    let h = only_header(FunctionCode::Read, &frag);
    assert!(matches!(h.details, HeaderDetails::OneByteCount(c, CountVariation::Group2Var0) if c == count));
    kani::cover!(count == 255);
}

// @harness c09_enc_limited_count_u16
// @props C09
// @tier quick
// @timeout 1800
// @mem 4
// @units HeaderWriter::write_limited_count::<u16>, Index::LIMITED_COUNT_QUALIFIER
// @bounds READ header g22v0 limited to any 16-bit count: parsed back as a two-byte count header with that count
#[kani::proof]
#[kani::unwind(6)]
fn c09_enc_limited_count_u16() {
    let count: u16 = kani::any();
    let mut buf = [0u8; 8];
    let n = {
        let mut c = WriteCursor::new(&mut buf);
        let mut w = HeaderWriter::new(&mut c);
        assert!(w.write_limited_count(Variation::Group22Var0, count).is_ok());
        c.position()
    };
    assert!(n == 5);
    assert!(buf[0] == 22 && buf[1] == 0 && buf[2] == 0x08);
    let frag = [22u8, 0, 0x08, buf[3], buf[4]];
    let h = only_header(FunctionCode::Read, &frag);
    assert!(matches!(h.details, HeaderDetails::TwoByteCount(c, CountVariation::Group22Var0) if c == count));
    kani::cover!(count > 255);
}

// @harness c09_enc_all_objects_and_clear_restart
// @props C09
// @tier quick
// @timeout 1800
// @mem 4
// @units HeaderWriter::{write_all_objects_header, write_clear_restart}, AllObjectsVariation::get
// @bounds class header g60v3 and the WRITE g80v1[7]=0 header the master uses to clear the restart bit: parsed back to the same thing
#[kani::proof]
#[kani::unwind(6)]
fn c09_enc_all_objects_and_clear_restart() {
    let mut buf = [0u8; 8];
    {
        let mut c = WriteCursor::new(&mut buf);
        let mut w = HeaderWriter::new(&mut c);
        assert!(w.write_all_objects_header(Variation::Group60Var3).is_ok());
        assert!(c.position() == 3);
    }
    assert!(buf[0] == 60 && buf[1] == 3 && buf[2] == 0x06);
    let frag = [60u8, 3, 0x06];
    let h = only_header(FunctionCode::Read, &frag);
    assert!(h.variation == Variation::Group60Var3 && matches!(h.details, HeaderDetails::AllObjects(AllObjectsVariation::Group60Var3)));
    let mut buf2 = [0u8; 8];
    {
        let mut c = WriteCursor::new(&mut buf2);
        let mut w = HeaderWriter::new(&mut c);
        assert!(w.write_clear_restart().is_ok());
        assert!(c.position() == 6);
    }
    assert!(buf2[0] == 80 && buf2[1] == 1 && buf2[2] == 0x00 && buf2[3] == 7 && buf2[4] == 7 && buf2[5] == 0);
    let frag2 = [80u8, 1, 0x00, 7, 7, 0];
    let h2 = only_header(FunctionCode::Write, &frag2);
    match h2.details {
        HeaderDetails::OneByteStartStop(7, 7, RangedVariation::Group80Var1(bits)) => {
            let mut it = bits.iter();
            assert!(matches!(it.next(), Some((false, 7))));
            assert!(it.next().is_none());
        }
        _ => panic!("clear-restart header not recognised"),
    }
    kani::cover!(true);
}

// @harness c09_enc_count_of_one_time
// @props C09,C18
// @tier quick
// @timeout 1800
// @mem 4
// @units HeaderWriter::write_count_of_one::<Group50Var1>, Group50Var1::{write,read}, CountSequence::single
// @bounds WRITE g50v1 with any 48-bit time (the time-sync write): parsed back as a count-of-one header carrying the same time
#[kani::proof]
#[kani::unwind(8)]
fn c09_enc_count_of_one_time() {
    let t: u64 = kani::any();
    kani::assume(t <= Timestamp::MAX_VALUE);
    let mut buf = [0u8; 12];
    {
        let mut c = WriteCursor::new(&mut buf);
        let mut w = HeaderWriter::new(&mut c);
        assert!(w.write_count_of_one(Group50Var1 { time: Timestamp::new(t) }).is_ok());
        assert!(c.position() == 10);
    }
    assert!(buf[0] == 50 && buf[1] == 1 && buf[2] == 0x07 && buf[3] == 1);
    let frag = [50u8, 1, 0x07, 1, buf[4], buf[5], buf[6], buf[7], buf[8], buf[9]];
    let h = only_header(FunctionCode::Write, &frag);
    match h.details {
        HeaderDetails::OneByteCount(1, CountVariation::Group50Var1(seq)) => match seq.single() {
            Some(x) => assert!(x.time.raw_value() == t),
            None => panic!("one object expected"),
        },
        _ => panic!("count-of-one header not recognised"),
    }
    kani::cover!(t == Timestamp::MAX_VALUE);
}

// @harness c15_confirm_fragments
// @props C15,C09
// @tier quick
// @timeout 900
// @mem 4
// @units write::{confirm_solicited, confirm_unsolicited}, start_request, RequestHeader::write, ParsedFragment::{parse, to_request}
// @bounds any sequence number: the CONFIRM the master emits is function 0, FIR and FIN, no CON, the UNS bit exactly as requested (an unsolicited response is confirmed with UNS set, a solicited one without) and the same sequence number; it parses as a valid request
#[kani::proof]
#[kani::unwind(6)]
fn c15_confirm_fragments() {
    let seq = Sequence::new(kani::any());
    let uns: bool = kani::any();
    let mut buf = [0u8; 4];
    let n = {
        let mut c = WriteCursor::new(&mut buf);
        let r = if uns { confirm_unsolicited(seq, &mut c) } else { confirm_solicited(seq, &mut c) };
        assert!(r.is_ok());
        c.position()
    };
    assert!(n == 2);
    assert!(buf[1] == 0x00);
    assert!(buf[0] == 0xC0 | if uns { 0x10 } else { 0 } | seq.value());
    let f = ParsedFragment::parse(ParseOptions::parse_everything(), &buf[..2]).unwrap();
    let r = f.to_request().unwrap();
    assert!(r.header.function == FunctionCode::Confirm && r.header.control.uns == uns && r.header.control.seq.value() == seq.value());
    assert!(r.header.control.fir && r.header.control.fin && !r.header.control.con);
    kani::cover!(uns);
    kani::cover!(!uns);
}
