// Harnesses for dnp3/src/app/format/write.rs — C09 "what one side encodes the other side's parser decodes" (encoder ->
// parser direction for the request builders' primitives), C15 (CONFIRM fragments)
use super::*;
use crate::app::gen::all::AllObjectsVariation;
use crate::app::gen::count::CountVariation;
use crate::app::gen::ranged::RangedVariation;
use crate::app::parse::options::ParseOptions;
use crate::app::parse::parser::{HeaderCollection, HeaderDetails, ParsedFragment};
use crate::app::variations::*;
use crate::app::Timestamp;

// @harness c15_confirm_fragments
// @props C15,C09
// @tier quick
// @timeout 900
// @mem 4
// @units write::{confirm_solicited, confirm_unsolicited}, start_request, RequestHeader::write, ParsedFragment::{parse, to_request}
// @bounds any sequence number: the CONFIRM the master emits is function 0, FIR and FIN, no CON, the UNS bit exactly as requested (an unsolicited response is confirmed with UNS set, a solicited one without) and the same sequence number; it parses as a valid request
#[kani::proof]
#[kani::unwind(6)]
fn c15_confirm_fragments() {
    let seq = Sequence::new(kani::any());
    let uns: bool = kani::any();
    let mut buf = [0u8; 4];
    let n = {
        let mut c = WriteCursor::new(&mut buf);
        let r = if uns { confirm_unsolicited(seq, &mut c) } else { confirm_solicited(seq, &mut c) };
        assert!(r.is_ok());
        c.position()
    };
    assert!(n == 2);
    assert!(buf[1] == 0x00);
    assert!(buf[0] == 0xC0 | if uns { 0x10 } else { 0 } | seq.value());
    let f = ParsedFragment::parse(ParseOptions::parse_everything(), &buf[..2]).unwrap();
    let r = f.to_request().unwrap();
    assert!(r.header.function == FunctionCode::Confirm && r.header.control.uns == uns && r.header.control.seq.value() == seq.value());
    assert!(r.header.control.fir && r.header.control.fin && !r.header.control.con);
    kani::cover!(uns);
    kani::cover!(!uns);
}
