// Harnesses for dnp3/src/transport/real/assembler.rs — C08 (reassembly), C07 (broadcast FIR+FIN rule), C01
use super::*;
use crate::link::header::{BroadcastConfirmMode, FrameType};
use crate::link::EndpointAddress;
use crate::transport::real::sequence::Sequence;
use crate::util::phys::PhysAddr;

pub(crate) fn any_frame_info() -> FrameInfo {
    let src: u16 = kani::any();
    kani::assume(src < 0xFFF0);
    let b: u8 = kani::any();
    kani::assume(b < 4);
    let broadcast = match b {
        0 => None,
        1 => Some(BroadcastConfirmMode::Optional),
        2 => Some(BroadcastConfirmMode::Mandatory),
        _ => Some(BroadcastConfirmMode::NotRequired),
    };
    FrameInfo::new(EndpointAddress::raw(src), broadcast, FrameType::Data, PhysAddr::None)
}

fn any_header() -> Header {
    Header::from_u8(kani::any())
}

const CAP: usize = 8;
const SEG: usize = 4;

/// Arbitrary non-Complete assembler state with arbitrary buffer content (= "whatever was accepted so far").
/// Representation invariant assumed: Running(_, _, len) has len <= capacity (established by append(), which only
/// enters Running/Complete after write_bytes succeeded; re-asserted after the step below).
fn any_assembler(content: &[u8; CAP]) -> (Assembler, Option<(FrameInfo, Header, usize)>) {
    let mut a = Assembler::new(CAP);
    {
        let mut c = a.buffer.write_cursor();
        assert!(c.write_bytes(content).is_ok());
    }
    a.frame_id = kani::any();
    if kani::any() {
        let info = any_frame_info();
        let h = any_header();
        let len: usize = kani::any();
        kani::assume(len <= CAP);
        // a Running state is only ever created for a non-FIN segment of a non-broadcast frame
        kani::assume(!h.fin && info.broadcast.is_none());
        a.state = InternalState::Running(info, h, len);
        (a, Some((info, h, len)))
    } else {
        a.state = InternalState::Empty;
        (a, None)
    }
}

// @harness c08_assembler_step
// @props C08,C07,C01
// @tier quick
// @timeout 900
// @mem 4
// @units Assembler::assemble, Assembler::append, Assembler::peek, Buffer::{write_cursor,get}, Sequence::next
// @bounds one inductive step: ANY state Empty/Running(info,header,len<=cap) with ANY buffer content, ANY segment header byte, ANY frame info (source, broadcast mode), payload 0..=4 arbitrary bytes; capacity 8 stands for 249..=2048 (the code is size-agnostic; real capacities: c08_assembler_lengths).  Histories of any length follow by induction (argument).
// @assumes assemble() is not entered in state Complete (Reader::read returns early when a fragment is pending: c08_reader_peek_guard)
#[kani::proof]
#[kani::unwind(10)]
fn c08_assembler_step() {
    let content: [u8; CAP] = kani::any();
    let (mut a, pre) = any_assembler(&content);
    let fid0 = a.frame_id;
    let info = any_frame_info();
    let h = any_header();
    let data: [u8; SEG] = kani::any();
    let n: usize = kani::any();
    kani::assume(n <= SEG);
    let r = a.assemble(info, h, &data[..n]);

    // ---- oracle (from IEEE 1815 transport function rules + the property text)
    // where does this segment land, if anywhere?
    let start: Option<usize> = if info.broadcast.is_some() {
        if h.fir && h.fin { Some(0) } else { None }
    } else if h.fir {
        Some(0)
    } else {
        match pre {
            Some((pinfo, ph, len)) if h.seq.value() == (ph.seq.value() + 1) % 64 && pinfo == info => Some(len),
            _ => None,
        }
    };
    let accepted = match start {
        Some(s) => s + n <= CAP,
        None => false,
    };
    // a broadcast segment that is not FIR+FIN is ignored; without FIR it leaves a running assembly untouched
    let ignored = info.broadcast.is_some() && !(h.fir && h.fin) && !h.fir && pre.is_some();
    match a.state {
        InternalState::Complete(finfo, size) => {
            assert!(matches!(r, AssemblyState::Complete));
            assert!(accepted && h.fin);
            let s = start.unwrap();
            assert!(size == s + n && size <= CAP);
            assert!(finfo.addr.link == info.source && finfo.broadcast == info.broadcast && finfo.id == fid0);
            assert!(a.frame_id == fid0.wrapping_add(1));
            // FIR-less fragments are never delivered: either this segment has FIR or it continues a running assembly
            assert!(h.fir || pre.is_some());
            let frag = a.peek().unwrap();
            assert!(frag.data.len() == size);
            let j: usize = kani::any();
            kani::assume(j < size);
            // bytes before the segment are what was accepted before, the rest is this segment
            assert!(frag.data[j] == if j < s { content[j] } else { data[j - s] });
        }
        InternalState::Running(rinfo, rh, len) if ignored => {
            // a malformed broadcast segment without FIR is dropped as if it had never arrived
            assert!(matches!(r, AssemblyState::ReadMore));
            let (pinfo, ph, plen) = pre.unwrap();
            assert!(rinfo == pinfo && rh.seq.value() == ph.seq.value() && len == plen);
            assert!(a.frame_id == fid0);
        }
        InternalState::Running(rinfo, rh, len) => {
            assert!(matches!(r, AssemblyState::ReadMore));
            assert!(accepted && !h.fin && info.broadcast.is_none());
            let s = start.unwrap();
            assert!(len == s + n && len <= CAP);
            assert!(rinfo == info && rh.seq.value() == h.seq.value());
            assert!(a.frame_id == fid0);
            let got = a.buffer.get(len).unwrap();
            let j: usize = kani::any();
            kani::assume(j < len);
            assert!(got[j] == if j < s { content[j] } else { data[j - s] });
        }
        InternalState::Empty => {
            assert!(matches!(r, AssemblyState::ReadMore));
            // a damaged stream costs only the affected fragment: nothing is delivered, state is clean
            assert!(!accepted && !ignored);
            assert!(a.frame_id == fid0);
        }
    }
    kani::cover!(matches!(a.state, InternalState::Complete(_, _)) && !h.fir);
    kani::cover!(matches!(a.state, InternalState::Running(_, _, _)));
    kani::cover!(matches!(a.state, InternalState::Empty) && pre.is_some());
    kani::cover!(info.broadcast.is_some() && matches!(a.state, InternalState::Complete(_, _)));
}

// @harness c08_assembler_lengths
// @props C08,C01
// @tier quick
// @timeout 900
// @mem 4
// @units Assembler::assemble, Assembler::append (the two expect()s), scursor WriteCursor::{skip,write_bytes}
// @bounds real sizes: capacity any of 249..=2048, accumulated length any 0..=capacity, payload length any 0..=249, content not tracked (zeros): no panic, new length = old + n iff it fits, else the partial fragment is dropped
#[kani::proof]
#[kani::unwind(4)]
fn c08_assembler_lengths() {
    let cap: usize = kani::any();
    kani::assume(cap >= 249 && cap <= 2048);
    let mut a = Assembler::new(cap);
    let info = any_frame_info();
    kani::assume(info.broadcast.is_none());
    let ph = any_header();
    kani::assume(!ph.fin);
    let len: usize = kani::any();
    kani::assume(len <= cap);
    a.state = InternalState::Running(info, ph, len);
    let data = [0u8; 249];
    let n: usize = kani::any();
    kani::assume(n <= 249);
    let h = Header::new(kani::any(), false, Sequence::new(ph.seq.next()));
    let _ = a.assemble(info, h, &data[..n]);
    match a.state {
        InternalState::Complete(_, size) => assert!(h.fin && size == len + n && size <= cap),
        InternalState::Running(_, _, l) => assert!(!h.fin && l == len + n && l <= cap),
        InternalState::Empty => assert!(len + n > cap),
    }
    kani::cover!(matches!(a.state, InternalState::Empty));
    kani::cover!(matches!(a.state, InternalState::Complete(_, _)));
}

// @harness c08_assembler_pop_reset
// @props C08,C04
// @tier quick
// @timeout 300
// @units Assembler::{pop, peek, reset}
// @bounds any complete fragment of length 0..=8: pop returns it once and leaves Empty; reset drops partial assembly; frame ids are consecutive (wrapping)
#[kani::proof]
#[kani::unwind(10)]
fn c08_assembler_pop_reset() {
    let mut a = Assembler::new(CAP);
    a.frame_id = kani::any();
    let fid0 = a.frame_id;
    let info = any_frame_info();
    let data: [u8; SEG] = kani::any();
    let n: usize = kani::any();
    kani::assume(n <= SEG);
    let h = Header::new(true, true, Sequence::new(kani::any()));
    assert!(matches!(a.assemble(info, h, &data[..n]), AssemblyState::Complete));
    assert!(a.peek().is_some());
    {
        let f = a.pop().unwrap();
        assert!(f.data.len() == n && f.info.id == fid0);
    }
    assert!(a.pop().is_none() && a.peek().is_none());
    // a second fragment gets the next id
    assert!(matches!(a.assemble(info, h, &data[..n]), AssemblyState::Complete));
    assert!(a.peek().unwrap().info.id == fid0.wrapping_add(1));
    a.reset();
    assert!(a.peek().is_none() && matches!(a.state, InternalState::Empty));
    kani::cover!(fid0 == u32::MAX);
}

// @harness c08_three_segments
// @props C08
// @tier quick
// @timeout 1200
// @mem 6
// @units Assembler::assemble x3 from Empty, Header::{new,to_u8,from_u8}, Sequence::increment
// @bounds bounded cross-check of the induction: a 3-segment stream as the writer numbers it (FIR first, FIN last, consecutive sequence from any start incl. 63->0), segment lengths 1..=2 each, with optionally ONE fault injected (drop, duplicate or foreign-source segment in the middle): delivered <=> no fault, and then byte-identical
#[kani::proof]
#[kani::unwind(10)]
fn c08_three_segments() {
    let mut a = Assembler::new(CAP);
    let info = any_frame_info();
    kani::assume(info.broadcast.is_none());
    let mut seq = Sequence::new(kani::any());
    let d: [[u8; 2]; 3] = kani::any();
    let l: [usize; 3] = [if kani::any() { 1 } else { 2 }, if kani::any() { 1 } else { 2 }, if kani::any() { 1 } else { 2 }];
    let hs = [
        Header::from_u8(Header::new(false, true, seq.increment()).to_u8()),
        Header::from_u8(Header::new(false, false, seq.increment()).to_u8()),
        Header::from_u8(Header::new(true, false, seq.increment()).to_u8()),
    ];
    let fault: u8 = kani::any();
    kani::assume(fault < 4);
    let mut other = info;
    other.source = EndpointAddress::raw(info.source.raw_value() ^ 1);
    let _ = a.assemble(info, hs[0], &d[0][..l[0]]);
    match fault {
        0 => { let _ = a.assemble(info, hs[1], &d[1][..l[1]]); }
        1 => {} // middle segment lost
        2 => { let _ = a.assemble(info, hs[1], &d[1][..l[1]]); let _ = a.assemble(info, hs[1], &d[1][..l[1]]); } // duplicated
        _ => { let _ = a.assemble(other, hs[1], &d[1][..l[1]]); } // middle segment from another source
    }
    let r = a.assemble(info, hs[2], &d[2][..l[2]]);
    if fault == 0 {
        assert!(matches!(r, AssemblyState::Complete));
        let f = a.peek().unwrap();
        assert!(f.data.len() == l[0] + l[1] + l[2]);
        assert!(f.info.addr.link == info.source);
        assert!(f.data[0] == d[0][0]);
        assert!(f.data[l[0]] == d[1][0]);
        assert!(f.data[l[0] + l[1]] == d[2][0]);
        assert!(f.data[l[0] + l[1] + l[2] - 1] == d[2][l[2] - 1]);
    } else {
        assert!(matches!(r, AssemblyState::ReadMore));
        assert!(a.peek().is_none());
        // the next well-formed fragment is delivered intact
        let h = Header::new(true, true, seq.increment());
        assert!(matches!(a.assemble(info, h, &d[0][..l[0]]), AssemblyState::Complete));
        let f = a.peek().unwrap();
        assert!(f.data.len() == l[0] && f.data[0] == d[0][0]);
    }
    kani::cover!(fault == 0);
    kani::cover!(fault == 3);
}
