// Harnesses for dnp3/src/outstation/database/details/event/buffer.rs — C03 (event ledger), C13 (class/overflow bits)
use super::*;
use crate::app::measurement::*;
use crate::outstation::database::config::*;

struct App {
    cleared: [u64; 4],
    n: usize,
}
impl OutstationApplication for App {
    fn event_cleared(&mut self, id: u64) {
        if self.n < 4 {
            self.cleared[self.n] = id;
        }
        self.n += 1;
    }
}

fn any_class() -> EventClass {
    let c: u8 = kani::any();
    kani::assume(c < 3);
    match c {
        0 => EventClass::Class1,
        1 => EventClass::Class2,
        _ => EventClass::Class3,
    }
}

fn class_ix(c: EventClass) -> usize {
    match c {
        EventClass::Class1 => 0,
        EventClass::Class2 => 1,
        EventClass::Class3 => 2,
    }
}

/// ground truth recomputed by walking the real list; every counter the buffer keeps must agree with it
struct Truth {
    n: usize,
    tot: [usize; 3],
    wr: [usize; 3],
    bin: usize,
    dbl: usize,
    wbin: usize,
    wdbl: usize,
    ids: [u64; 4],
    states: [u8; 4],
}

fn truth(b: &EventBuffer) -> Truth {
    let mut t = Truth { n: 0, tot: [0; 3], wr: [0; 3], bin: 0, dbl: 0, wbin: 0, wdbl: 0, ids: [u64::MAX; 4], states: [9; 4] };
    let mut last_id: Option<u64> = None;
    for (_, r) in b.events.iter() {
        let k = class_ix(r.class);
        t.tot[k] += 1;
        let written = r.state.get() == EventState::Written;
        if written {
            t.wr[k] += 1;
        }
        match r.event {
            Event::Binary(_, _) => {
                t.bin += 1;
                if written {
                    t.wbin += 1;
                }
            }
            Event::DoubleBitBinary(_, _) => {
                t.dbl += 1;
                if written {
                    t.wdbl += 1;
                }
            }
            _ => panic!("only two event types are inserted"),
        }
        // oldest first: list order == insertion order == ascending id
        if let Some(p) = last_id {
            assert!(r.id > p);
        }
        last_id = Some(r.id);
        if t.n < 4 {
            t.ids[t.n] = r.id;
            t.states[t.n] = match r.state.get() {
                EventState::Unselected => 0,
                EventState::Selected => 1,
                EventState::Written => 2,
            };
        }
        t.n += 1;
    }
    t
}

fn check(b: &EventBuffer) -> Truth {
    let t = truth(b);
    assert!(b.total.classes.num_class_1.value == t.tot[0]);
    assert!(b.total.classes.num_class_2.value == t.tot[1]);
    assert!(b.total.classes.num_class_3.value == t.tot[2]);
    assert!(b.written.classes.num_class_1.value == t.wr[0]);
    assert!(b.written.classes.num_class_2.value == t.wr[1]);
    assert!(b.written.classes.num_class_3.value == t.wr[2]);
    assert!(b.total.types.num_binary.value == t.bin && b.total.types.num_double_binary.value == t.dbl);
    assert!(b.written.types.num_binary.value == t.wbin && b.written.types.num_double_binary.value == t.wdbl);
    // C13: class bits <=> an event of that class exists that is not part of a written (pending-confirm) response
    let u = b.unwritten_classes();
    assert!(u.class1 == (t.tot[0] > t.wr[0]));
    assert!(u.class2 == (t.tot[1] > t.wr[1]));
    assert!(u.class3 == (t.tot[2] > t.wr[2]));
    // capacity is never exceeded
    assert!(t.bin <= MAX_BIN as usize && t.dbl <= MAX_DBL as usize);
    let st = b.buffer_state();
    assert!(st.classes.num_class_1 == t.tot[0] && st.types.num_binary_input == t.bin);
    t
}

const MAX_BIN: u16 = 1;
const MAX_DBL: u16 = 1;

/// nondeterministic "fits / does not fit" instead of the real encoder (the encoders are C09/C10 territory)
static mut SYMBOLIC: bool = false;

fn write_stub(_e: &Event, _index: u16, _cursor: &mut WriteCursor, _writer: &mut EventWriter) -> Result<(), BadWrite> {
    if unsafe { !SYMBOLIC } || kani::any() {
        Ok(())
    } else {
        Err(BadWrite)
    }
}

/// data of the operations: concrete in the prefix of a skeleton (so that symbolic execution folds it), symbolic from
/// the position the generator names
static mut INSERTS: u8 = 0;

/// class of an inserted event: in the concrete prefix of skeletons that start with two inserts the FIRST record goes to
/// class 2 and the others to class 1, so that a class-1 poll leaves an older record of another class in front
fn pick_insert_class() -> EventClass {
    let k = unsafe { INSERTS };
    unsafe { INSERTS += 1 };
    if unsafe { SYMBOLIC } {
        any_class()
    } else if k == 0 && unsafe { FIRST_CLASS2 } {
        EventClass::Class2
    } else {
        EventClass::Class1
    }
}
static mut FIRST_CLASS2: bool = false;

fn pick_class() -> EventClass {
    if unsafe { SYMBOLIC } {
        any_class()
    } else {
        EventClass::Class1
    }
}
fn pick_u16(concrete: u16) -> u16 {
    if unsafe { SYMBOLIC } {
        kani::any()
    } else {
        concrete
    }
}
fn pick_bool(concrete: bool) -> bool {
    if unsafe { SYMBOLIC } {
        kani::any()
    } else {
        concrete
    }
}

/// one operation of kind `op` with arbitrary data, followed by the per-operation contract
fn step(b: &mut EventBuffer, app: &mut App, out: &mut [u8; 16], op: u8) {
    let before = truth(b);
    let overflown_before = b.is_overflown();
    match op {
        // insert binary / double-bit
        0 | 1 => {
            let index: u16 = pick_u16(7);
            let class = pick_insert_class();
            let next_id = b.next;
            let r = if op == 0 {
                b.insert(index, class, &BinaryInput::new(pick_bool(true), Flags::ONLINE, Time::unsynchronized(0)), EventBinaryInputVariation::Group2Var1)
            } else {
                b.insert(index, class, &DoubleBitBinaryInput::new(DoubleBit::DeterminedOn, Flags::ONLINE, Time::unsynchronized(0)), EventDoubleBitBinaryInputVariation::Group4Var1)
            };
            let after = check(b);
            let (same_before, max) = if op == 0 { (before.bin, MAX_BIN as usize) } else { (before.dbl, MAX_DBL as usize) };
            match r {
                Ok(id) => {
                    // no overflow: nothing was released, the new record is the newest
                    assert!(id == next_id && same_before < max);
                    assert!(after.n == before.n + 1);
                    assert!(b.is_overflown() == overflown_before);
                }
                Err(InsertError::Overflow { created, discarded }) => {
                    // exactly one record - the OLDEST OF THE SAME TYPE - was displaced, and it is reported
                    assert!(created == next_id && same_before == max);
                    assert!(after.n == before.n);
                    assert!(b.is_overflown());
                    let mut seen_same_type_older = false;
                    let mut found = false;
                    let mut i = 0;
                    while i < before.n && i < 4 {
                        if before.ids[i] == discarded {
                            found = true;
                            assert!(!seen_same_type_older);
                        } else if !found {
                            // records in front of the discarded one must be of the other type (they all survive)
                            let mut j = 0;
                            let mut survives = false;
                            while j < after.n && j < 4 {
                                if after.ids[j] == before.ids[i] {
                                    survives = true;
                                }
                                j += 1;
                            }
                            assert!(survives);
                        }
                        i += 1;
                    }
                    assert!(found);
                    let _ = seen_same_type_older;
                }
                Err(InsertError::TypeMaxIsZero) => panic!("both types have capacity"),
            }
            // the newest record is the one just created, unselected, with the data given
            let mut lastrec = None;
            for (_, r) in b.events.iter() {
                lastrec = Some(r);
            }
            let lr = lastrec.unwrap();
            assert!(lr.id == next_id && lr.index == index && lr.class == class && lr.state.get() == EventState::Unselected);
        }
        // select by class with/without limit
        2 => {
            let c = pick_class();
            let limit: Option<usize> = if pick_bool(false) { Some(1) } else { None };
            let n = b.select_by_class(c.into(), limit);
            let after = check(b);
            assert!(after.n == before.n);
            // only Unselected -> Selected transitions, oldest first, at most `limit`
            let mut changed = 0;
            let mut i = 0;
            while i < after.n && i < 4 {
                assert!(after.ids[i] == before.ids[i]);
                if after.states[i] != before.states[i] {
                    assert!(before.states[i] == 0 && after.states[i] == 1);
                    changed += 1;
                }
                i += 1;
            }
            assert!(changed == n);
            if let Some(l) = limit {
                assert!(n <= l);
            }
        }
        // write selected events into a response
        3 => {
            let mut cur = WriteCursor::new(&mut out[..]);
            let r = b.write_events(&mut cur);
            let after = check(b);
            assert!(after.n == before.n);
            // Selected -> Written in list order; the first one that does not fit stops the run
            let mut written_now = 0;
            let mut stopped = false;
            let mut i = 0;
            while i < after.n && i < 4 {
                assert!(after.ids[i] == before.ids[i]);
                if before.states[i] == 1 {
                    if after.states[i] == 2 {
                        assert!(!stopped);
                        written_now += 1;
                    } else {
                        assert!(after.states[i] == 1);
                        stopped = true;
                    }
                } else {
                    assert!(after.states[i] == before.states[i]);
                }
                i += 1;
            }
            match r {
                Ok(n) => assert!(n == written_now && !stopped),
                Err(n) => assert!(n == written_now && stopped),
            }
        }
        // a confirm arrived: release what was written
        4 => {
            let n0 = app.n;
            let count = b.clear_written(app);
            let after = check(b);
            // exactly the Written records are gone, each reported exactly once with its id; nothing else is touched
            let mut expect = 0;
            let mut k = 0;
            let mut i = 0;
            while i < before.n && i < 4 {
                if before.states[i] == 2 {
                    if n0 + expect < 4 {
                        assert!(app.cleared[n0 + expect] == before.ids[i]);
                    }
                    expect += 1;
                } else {
                    assert!(k < after.n && after.ids[k] == before.ids[i] && after.states[k] == before.states[i]);
                    k += 1;
                }
                i += 1;
            }
            assert!(count == expect && app.n == n0 + expect && after.n == before.n - expect);
            assert!(after.wr[0] + after.wr[1] + after.wr[2] == 0);
            // C13 overflow bit: cleared once every type is below capacity again
            if after.bin < MAX_BIN as usize && after.dbl < MAX_DBL as usize {
                assert!(!b.is_overflown());
            } else {
                assert!(b.is_overflown() == overflown_before);
            }
        }
        // series aborted / timed out / reconnect: everything goes back to the pool, nothing is released
        _ => {
            b.reset();
            let after = check(b);
            assert!(after.n == before.n);
            let mut i = 0;
            while i < after.n && i < 4 {
                assert!(after.ids[i] == before.ids[i] && after.states[i] == 0);
                i += 1;
            }
            assert!(b.is_overflown() == overflown_before);
        }
    }
}

/// `symbolic_from`: position of the first operation whose data is symbolic
fn run_skeleton(ops: &[u8], symbolic_from: usize) {
    // skeletons that begin with two inserts put the first record into class 2 (it stays unselected by the class-1 poll)
    unsafe { FIRST_CLASS2 = ops.len() >= 2 && ops[0] <= 1 && ops[1] <= 1 };
    let mut b = EventBuffer::new(EventBufferConfig::new(MAX_BIN, MAX_DBL, 0, 0, 0, 0, 0, 0));
    let mut app = App { cleared: [0; 4], n: 0 };
    let mut out = [0u8; 16];
    unsafe { INSERTS = 0 };
    let mut i = 0;
    for o in ops {
        unsafe { SYMBOLIC = i >= symbolic_from };
        step(&mut b, &mut app, &mut out, *o);
        i += 1;
    }
    kani::cover!(true);
}

include!(concat!(env!("VERIF_GEN_DIR"), "/event_buffer_gen.rs"));

// @harness c13_overflow_bit_all_types
// @props C13,C03
// @tier quick
// @timeout 900
// @mem 4
// @units EventBuffer::{clear_written, is_any_full, is_full, is_overflown}, Insertable::{get_max,get_type_count} for all eight event types
// @bounds one inductive step over a symbolic ledger: capacities of the eight event types any 0..=3, per-type totals any 0..=capacity, overflow flag any; a confirm that releases nothing: the overflow indication is cleared <=> NO type with non-zero capacity is at capacity (every one of the eight types is consulted), and is never set by a confirm
#[kani::proof]
#[kani::unwind(10)]
fn c13_overflow_bit_all_types() {
    let caps: [u16; 8] = kani::any();
    let cnt: [usize; 8] = kani::any();
    let mut i = 0;
    while i < 8 {
        kani::assume(caps[i] <= 3 && cnt[i] <= caps[i] as usize);
        i += 1;
    }
    let mut b = EventBuffer::new(EventBufferConfig::new(caps[0], caps[1], caps[2], caps[3], caps[4], caps[5], caps[6], caps[7]));
    b.total.types.num_binary.value = cnt[0];
    b.total.types.num_double_binary.value = cnt[1];
    b.total.types.num_binary_output_status.value = cnt[2];
    b.total.types.num_counter.value = cnt[3];
    b.total.types.num_frozen_counter.value = cnt[4];
    b.total.types.num_analog.value = cnt[5];
    b.total.types.num_analog_output_status.value = cnt[6];
    b.total.types.num_octet_string.value = cnt[7];
    let before: bool = kani::any();
    b.is_overflown = before;
    let mut app = App { cleared: [0; 4], n: 0 };
    let released = b.clear_written(&mut app);
    assert!(released == 0 && app.n == 0);
    let mut any_full = false;
    let mut i = 0;
    while i < 8 {
        if caps[i] != 0 && cnt[i] >= caps[i] as usize {
            any_full = true;
        }
        i += 1;
    }
    assert!(b.is_overflown() == (before && any_full));
    kani::cover!(before && !any_full);
    kani::cover!(before && any_full && cnt[4] == caps[4] as usize && caps[4] != 0);
    std::mem::forget(b);
}

// @harness c03_capacity_is_sum_of_type_limits
// @props C03,C13
// @tier quick
// @timeout 300
// @units EventBufferConfig::{new, max_events}
// @bounds every combination of the eight per-type limits (each 0..=65535): the shared event list is sized for their SUM, so an insert that passes its per-type limit check always finds a free slot (an undersized list drops the event silently: `VecList::add` returning None is not reported)
#[kani::proof]
#[kani::unwind(2)]
fn c03_capacity_is_sum_of_type_limits() {
    let m: [u16; 8] = kani::any();
    let c = EventBufferConfig::new(m[0], m[1], m[2], m[3], m[4], m[5], m[6], m[7]);
    let sum = m[0] as usize + m[1] as usize + m[2] as usize + m[3] as usize + m[4] as usize + m[5] as usize + m[6] as usize + m[7] as usize;
    assert!(c.max_events() == sum);
    kani::cover!(m[6] > m[5]);
}
