// Harnesses for dnp3/src/outstation/database/details/event/list.rs — the ordered store underneath the event buffer.
// C03: oldest-first order, nothing lost, nothing resurrected; C01: no panic from index bookkeeping.
use super::*;

const CAP: usize = 4;

/// reference model: a plain array kept in insertion order
struct Model {
    items: [u8; CAP],
    n: usize,
}
impl Model {
    fn add(&mut self, x: u8) -> bool {
        if self.n == CAP {
            return false;
        }
        self.items[self.n] = x;
        self.n += 1;
        true
    }
    fn remove_where(&mut self, mask: u8, first_only: bool) -> usize {
        // bit k of mask: the element whose VALUE has id k is to be removed (values are unique ids 0..8)
        let mut out = [0u8; CAP];
        let mut m = 0;
        let mut removed = 0;
        let mut i = 0;
        while i < self.n {
            let hit = mask & (1 << self.items[i]) != 0 && !(first_only && removed > 0);
            if hit {
                removed += 1;
            } else {
                out[m] = self.items[i];
                m += 1;
            }
            i += 1;
        }
        self.items = out;
        self.n = m;
        removed
    }
}

fn same(list: &VecList<u8>, model: &Model) {
    assert!(list.len() == model.n);
    let mut k = 0;
    for (_, x) in list.iter() {
        assert!(k < model.n && *x == model.items[k]);
        k += 1;
    }
    assert!(k == model.n);
}

// @harness c03_list_matches_model
// @props C03,C01
// @tier quick
// @timeout 2400
// @mem 12
// @units VecList::{new, add, remove_all, remove_first, remove_at, find_first, iter, len, is_full}, ListIterator::next
// @bounds capacity 4; three records are stored, then an ARBITRARY subset is released (remove_all with any predicate) or the first match (remove_first), then two more records are stored: after every step the list iterated from its head equals the reference array (same records, oldest first, none lost, none resurrected, none duplicated) and the length matches; free slots are reused without corrupting the links
#[kani::proof]
#[kani::unwind(7)]
fn c03_list_matches_model() {
    let mut list: VecList<u8> = VecList::new(CAP);
    let mut model = Model { items: [0; CAP], n: 0 };
    let mut id = 0u8;
    let mut add = |list: &mut VecList<u8>, model: &mut Model, id: &mut u8| {
        let ok = model.add(*id);
        assert!(list.add(*id).is_some() == ok);
        *id += 1;
    };
    add(&mut list, &mut model, &mut id);
    add(&mut list, &mut model, &mut id);
    add(&mut list, &mut model, &mut id);
    same(&list, &model);
    // first removal: any subset, or first match only
    let mask1: u8 = kani::any();
    let first_only: bool = kani::any();
    if first_only {
        let r = list.remove_first(|x| mask1 & (1 << *x) != 0).is_some();
        assert!(r == (model.remove_where(mask1, true) == 1));
    } else {
        let n = list.remove_all(|x| mask1 & (1 << *x) != 0);
        assert!(n == model.remove_where(mask1, false));
    }
    same(&list, &model);
    // the next record must be appended behind whatever survived - and be reachable from the head
    add(&mut list, &mut model, &mut id);
    same(&list, &model);
    add(&mut list, &mut model, &mut id);
    same(&list, &model);
    kani::cover!(mask1 & 7 == 6 && !first_only); // middle + tail released while the head stays (the awkward case)
    kani::cover!(model.n == CAP);
    std::mem::forget(list);
}
