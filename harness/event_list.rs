// Harnesses for dnp3/src/outstation/database/details/event/list.rs — the ordered store underneath the event buffer.
// C03: oldest-first order, nothing lost, nothing resurrected; C01: no panic from index bookkeeping.
use super::*;

const CAP: usize = 3;

/// reference model: a plain array kept in insertion order
struct Model {
    items: [u8; CAP],
    n: usize,
}
impl Model {
    fn add(&mut self, x: u8) -> bool {
        if self.n == CAP {
            return false;
        }
        self.items[self.n] = x;
        self.n += 1;
        true
    }
    fn remove_where(&mut self, mask: u8, first_only: bool) -> usize {
        // bit k of mask: the element whose VALUE has id k is to be removed (values are unique ids 0..8)
        let mut out = [0u8; CAP];
        let mut m = 0;
        let mut removed = 0;
        let mut i = 0;
        while i < self.n {
            let hit = mask & (1 << self.items[i]) != 0 && !(first_only && removed > 0);
            if hit {
                removed += 1;
            } else {
                out[m] = self.items[i];
                m += 1;
            }
            i += 1;
        }
        self.items = out;
        self.n = m;
        removed
    }
}

fn same(list: &VecList<u8>, model: &Model) {
    assert!(list.len() == model.n);
    let mut k = 0;
    for (_, x) in list.iter() {
        assert!(k < model.n && *x == model.items[k]);
        k += 1;
    }
    assert!(k == model.n);
}

// @harness c03_list_matches_model
// @props C03
// @tier thorough
// @class attempt
// @timeout 3600
// @mem 26
// @units VecList::{new, add, remove_all, remove_first, remove_at, find_first, iter, len, is_full}, ListIterator::next
// @bounds capacity 3; three records are stored, then an ARBITRARY subset is released (remove_all with any predicate) or the first match (remove_first), then one more record is stored (accepted iff there is room): after every step the list iterated from its head equals the reference array.  Attempt-and-report: the heap-backed containers exhaust memory in most runs (see c03_list_unlink_step for the registered formulation)
#[kani::proof]
#[kani::unwind(5)]
fn c03_list_matches_model() {
    let mut list: VecList<u8> = VecList::new(CAP);
    let mut model = Model { items: [0; CAP], n: 0 };
    let mut id = 0u8;
    let mut add = |list: &mut VecList<u8>, model: &mut Model, id: &mut u8| {
        let ok = model.add(*id);
        assert!(list.add(*id).is_some() == ok);
        *id += 1;
    };
    add(&mut list, &mut model, &mut id);
    add(&mut list, &mut model, &mut id);
    add(&mut list, &mut model, &mut id);
    same(&list, &model);
    let mask1: u8 = kani::any();
    let n = list.remove_all(|x| mask1 & (1 << *x) != 0);
    assert!(n == model.remove_where(mask1, false));
    same(&list, &model);
    add(&mut list, &mut model, &mut id);
    same(&list, &model);
    kani::cover!(mask1 & 7 == 6);
    std::mem::forget(list);
}

/// the six orders in which three storage slots can be linked
fn perm(p: u8) -> [usize; 3] {
    match p {
        0 => [0, 1, 2],
        1 => [0, 2, 1],
        2 => [1, 0, 2],
        3 => [1, 2, 0],
        4 => [2, 0, 1],
        _ => [2, 1, 0],
    }
}

/// links of the used slots must describe exactly `order` (head first): the representation invariant of VecList
fn assert_links(list: &VecList<u8>, order: &[usize], n: usize) {
    match list.state {
        None => assert!(n == 0),
        Some(st) => {
            assert!(n > 0 && st.size == n && st.head == order[0] && st.tail == order[n - 1]);
            let mut i = 0;
            while i < n {
                let e = &list.storage[order[i]];
                assert!(!e.is_free);
                assert!(e.metadata.prev == if i == 0 { None } else { Some(order[i - 1]) });
                assert!(e.metadata.next == if i + 1 == n { None } else { Some(order[i + 1]) });
                i += 1;
            }
        }
    }
}

/// one inductive step on the ordered event store, for ONE linking order of the three storage slots (constant, so that
/// slot indexing stays concrete) and an ARBITRARY position released, then an arbitrary second release, then an add
fn unlink_case(o: [usize; 3]) {
    let mut list: VecList<u8> = VecList::new(3);
    assert!(list.add(10).is_some() && list.add(11).is_some() && list.add(12).is_some());
    let mut i = 0;
    while i < 3 {
        list.storage[o[i]].metadata.prev = if i == 0 { None } else { Some(o[i - 1]) };
        list.storage[o[i]].metadata.next = if i == 2 { None } else { Some(o[i + 1]) };
        i += 1;
    }
    list.state = Some(State::new(o[0], o[2], 3));
    assert_links(&list, &o, 3);
    let k: usize = kani::any();
    kani::assume(k < 3);
    let slot = o[k];
    let idx = list.storage[slot].create_index(slot);
    assert!(list.remove_at(idx));
    assert!(!list.remove_at(idx)); // exactly once
    let rest = [o[if k == 0 { 1 } else { 0 }], o[if k == 2 { 1 } else { 2 }]];
    assert_links(&list, &rest, 2);
    let mut seen = 0;
    for (_, v) in list.iter() {
        assert!(seen < 2 && *v == 10 + rest[seen] as u8);
        seen += 1;
    }
    assert!(seen == 2 && list.len() == 2);
    let k2: usize = kani::any();
    kani::assume(k2 < 2);
    let slot2 = rest[k2];
    let idx2 = list.storage[slot2].create_index(slot2);
    assert!(list.remove_at(idx2));
    let last = [rest[1 - k2]];
    assert_links(&list, &last, 1);
    assert!(list.add(77).is_some());
    let mut vals = [0u8; 2];
    let mut n = 0;
    for (_, v) in list.iter() {
        assert!(n < 2);
        vals[n] = *v;
        n += 1;
    }
    assert!(n == 2 && vals[0] == 10 + last[0] as u8 && vals[1] == 77);
    kani::cover!(k == 1);
    kani::cover!(k == 2 && k2 == 0);
    std::mem::forget(list);
}

macro_rules! unlink_harness {
    ($name:ident, $o:expr) => {
        #[kani::proof]
        #[kani::unwind(5)]
        fn $name() {
            unlink_case($o)
        }
    };
}
// @harness c03_list_unlink_012
// @props C03
// @tier thorough
// @class attempt
// @timeout 1800
// @mem 8
// @units VecList::{remove_at, add, iter, len}, State::from, Entry
// @bounds one inductive step on the ordered event store: a full list of three records whose storage slots are linked in the order [0, 1, 2] (one of the 6 possible; representation invariant reachable through add/remove histories), ANY record released (head, middle or tail), then ANY second release, then one record stored: after each step every prev/next/head/tail link describes exactly the surviving records in their old order (no stale pointer), iteration yields them oldest first, and the new record is reachable at the tail
unlink_harness!(c03_list_unlink_012, [0, 1, 2]);
// @harness c03_list_unlink_021
// @props C03
// @tier thorough
// @class attempt
// @timeout 1800
// @mem 8
// @units VecList::{remove_at, add, iter, len}, State::from, Entry
// @bounds one inductive step on the ordered event store: a full list of three records whose storage slots are linked in the order [0, 2, 1] (one of the 6 possible; representation invariant reachable through add/remove histories), ANY record released (head, middle or tail), then ANY second release, then one record stored: after each step every prev/next/head/tail link describes exactly the surviving records in their old order (no stale pointer), iteration yields them oldest first, and the new record is reachable at the tail
unlink_harness!(c03_list_unlink_021, [0, 2, 1]);
// @harness c03_list_unlink_102
// @props C03
// @tier thorough
// @class attempt
// @timeout 1800
// @mem 8
// @units VecList::{remove_at, add, iter, len}, State::from, Entry
// @bounds one inductive step on the ordered event store: a full list of three records whose storage slots are linked in the order [1, 0, 2] (one of the 6 possible; representation invariant reachable through add/remove histories), ANY record released (head, middle or tail), then ANY second release, then one record stored: after each step every prev/next/head/tail link describes exactly the surviving records in their old order (no stale pointer), iteration yields them oldest first, and the new record is reachable at the tail
unlink_harness!(c03_list_unlink_102, [1, 0, 2]);
// @harness c03_list_unlink_120
// @props C03
// @tier thorough
// @class attempt
// @timeout 1800
// @mem 8
// @units VecList::{remove_at, add, iter, len}, State::from, Entry
// @bounds one inductive step on the ordered event store: a full list of three records whose storage slots are linked in the order [1, 2, 0] (one of the 6 possible; representation invariant reachable through add/remove histories), ANY record released (head, middle or tail), then ANY second release, then one record stored: after each step every prev/next/head/tail link describes exactly the surviving records in their old order (no stale pointer), iteration yields them oldest first, and the new record is reachable at the tail
unlink_harness!(c03_list_unlink_120, [1, 2, 0]);
// @harness c03_list_unlink_201
// @props C03
// @tier thorough
// @class attempt
// @timeout 1800
// @mem 8
// @units VecList::{remove_at, add, iter, len}, State::from, Entry
// @bounds one inductive step on the ordered event store: a full list of three records whose storage slots are linked in the order [2, 0, 1] (one of the 6 possible; representation invariant reachable through add/remove histories), ANY record released (head, middle or tail), then ANY second release, then one record stored: after each step every prev/next/head/tail link describes exactly the surviving records in their old order (no stale pointer), iteration yields them oldest first, and the new record is reachable at the tail
unlink_harness!(c03_list_unlink_201, [2, 0, 1]);
// @harness c03_list_unlink_210
// @props C03
// @tier thorough
// @class attempt
// @timeout 1800
// @mem 8
// @units VecList::{remove_at, add, iter, len}, State::from, Entry
// @bounds one inductive step on the ordered event store: a full list of three records whose storage slots are linked in the order [2, 1, 0] (one of the 6 possible; representation invariant reachable through add/remove histories), ANY record released (head, middle or tail), then ANY second release, then one record stored: after each step every prev/next/head/tail link describes exactly the surviving records in their old order (no stale pointer), iteration yields them oldest first, and the new record is reachable at the tail
unlink_harness!(c03_list_unlink_210, [2, 1, 0]);
