// Harnesses for dnp3/src/outstation/database/details/event/write_fn.rs (+ master/convert.rs) — C10: relative-time events
use super::*;
use crate::app::Timestamp;
use scursor::ReadCursor;

fn any_time() -> Time {
    let ts = Timestamp::new(kani::any());
    if kani::any() {
        Time::Synchronized(ts)
    } else {
        Time::Unsynchronized(ts)
    }
}

// @harness c10_cto_relative_time_binary
// @props C10
// @tier quick
// @timeout 900
// @units write_fn::write_cto, ToVariationCto<Group2Var3> for BinaryInput, Group2Var3::{write,read}, master/convert.rs Group2Var3::to_measurement, Time::checked_add
// @bounds one binary event (any value, flags, time: any 48-bit synchronized/unsynchronized) against any common time of occurrence (any 48-bit, either quality): the event stays in the header <=> same synchronisation quality AND 0 <= time - cto <= 65535 ms; then the index and 3 object bytes are written and the master's reconstruction cto + relative == the event's absolute time with its quality, value and flags; otherwise a new header is requested and nothing is written
#[kani::proof]
#[kani::unwind(4)]
fn c10_cto_relative_time_binary() {
    let ev = BinaryInput { value: kani::any(), flags: Flags::new(kani::any()), time: Some(any_time()) };
    let cto = any_time();
    let index: u16 = kani::any();
    let mut buf = [0u8; 8];
    let (r, pos) = {
        let mut c = WriteCursor::new(&mut buf);
        let r = write_cto::<Group2Var3, BinaryInput>(&mut c, &ev, index, cto);
        (r, c.position())
    };
    let t = ev.time.unwrap();
    let et = t.timestamp().raw_value();
    let ct = cto.timestamp().raw_value();
    let fits = t.is_synchronized() == cto.is_synchronized() && et >= ct && et - ct <= 65535;
    match r {
        Ok(Continue::Ok) => {
            assert!(fits && pos == 5);
            assert!(u16::from_le_bytes([buf[0], buf[1]]) == index);
            let mut rc = ReadCursor::new(&buf[2..5]);
            let w = Group2Var3::read(&mut rc).unwrap();
            // master side
            let m = w.to_measurement(Some(cto));
            assert!(m.value == ev.value);
            assert!(m.flags.value & 0x7F == ev.flags.value & 0x7F);
            match m.time {
                Some(mt) => assert!(mt.timestamp().raw_value() == et && mt.is_synchronized() == t.is_synchronized()),
                None => panic!("reconstructed time must fit: it is the original 48-bit time"),
            }
        }
        Ok(Continue::NewHeader) => assert!(!fits && pos == 0),
        Err(_) => panic!("8 bytes are enough"),
    }
    kani::cover!(fits && et - ct == 65535);
    kani::cover!(!fits && et < ct);
}

// @harness c10_cto_relative_time_double_bit
// @props C10
// @tier quick
// @timeout 900
// @units write_fn::write_cto, ToVariationCto<Group4Var3> for DoubleBitBinaryInput, Group4Var3::to_measurement
// @bounds as c10_cto_relative_time_binary for double-bit events (all four states)
#[kani::proof]
#[kani::unwind(4)]
fn c10_cto_relative_time_double_bit() {
    let k: u8 = kani::any();
    kani::assume(k < 4);
    let v = match k {
        0 => DoubleBit::Intermediate,
        1 => DoubleBit::DeterminedOff,
        2 => DoubleBit::DeterminedOn,
        _ => DoubleBit::Indeterminate,
    };
    let ev = DoubleBitBinaryInput { value: v, flags: Flags::new(kani::any()), time: Some(any_time()) };
    let cto = any_time();
    let mut buf = [0u8; 8];
    let (r, pos) = {
        let mut c = WriteCursor::new(&mut buf);
        let r = write_cto::<Group4Var3, DoubleBitBinaryInput>(&mut c, &ev, kani::any(), cto);
        (r, c.position())
    };
    let t = ev.time.unwrap();
    let et = t.timestamp().raw_value();
    let ct = cto.timestamp().raw_value();
    let fits = t.is_synchronized() == cto.is_synchronized() && et >= ct && et - ct <= 65535;
    match r {
        Ok(Continue::Ok) => {
            assert!(fits && pos == 5);
            let mut rc = ReadCursor::new(&buf[2..5]);
            let m = Group4Var3::read(&mut rc).unwrap().to_measurement(Some(cto));
            assert!(m.value == v && m.flags.value & 0x3F == ev.flags.value & 0x3F);
            assert!(matches!(m.time, Some(mt) if mt.timestamp().raw_value() == et && mt.is_synchronized() == t.is_synchronized()));
        }
        Ok(Continue::NewHeader) => assert!(!fits && pos == 0),
        Err(_) => panic!("8 bytes are enough"),
    }
    kani::cover!(fits);
    kani::cover!(!fits);
}
