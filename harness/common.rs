//! shared helpers for the Kani harnesses (compiled only under cfg(kani))
#![allow(dead_code)]

/// Fabricate an Instant from (secs, nanos).  Layout of std::time::Instant on linux is
/// Timespec { tv_sec: i64, tv_nsec: u32 (niche-limited < 1e9) }; `c00_instant_layout` pins this.
pub(crate) fn mk_instant(secs: u32, nanos: u32) -> tokio::time::Instant {
    let raw: (i64, u32) = (secs as i64, nanos);
    let std_i: std::time::Instant = unsafe { std::mem::transmute_copy(&raw) };
    tokio::time::Instant::from_std(std_i)
}

/// arbitrary instant, seconds < 2^32
pub(crate) fn any_instant() -> tokio::time::Instant {
    let s: u32 = kani::any();
    let n: u32 = kani::any();
    kani::assume(n < 1_000_000_000);
    mk_instant(s, n)
}

/// The clock.  std's `Instant::now()` ends in the foreign function `clock_gettime`; this definition shadows libc's
/// in every cfg(kani) build: under Kani the call resolves to it (no `clock_gettime` model exists in Kani), and in the
/// native concrete-playback binary the executable's own symbol wins over libc's.  So the same harness text drives the
/// clock symbolically under CBMC and concretely when a counterexample is replayed.
static mut FAKE_NOW: (i64, u32) = (0, 0);

#[repr(C)]
pub struct VerifTimespec {
    tv_sec: i64,
    tv_nsec: i64,
}

#[no_mangle]
pub unsafe extern "C" fn clock_gettime(_clk: i32, ts: *mut VerifTimespec) -> i32 {
    (*ts).tv_sec = FAKE_NOW.0;
    (*ts).tv_nsec = FAKE_NOW.1 as i64;
    0
}

/// set what `Instant::now()` returns from here on; returns the same instant
pub(crate) fn set_now(secs: u32, nanos: u32) -> tokio::time::Instant {
    unsafe { FAKE_NOW = (secs as i64, nanos) };
    mk_instant(secs, nanos)
}

/// set the clock to an arbitrary instant and return it
pub(crate) fn set_now_any() -> tokio::time::Instant {
    let s: u32 = kani::any();
    let n: u32 = kani::any();
    kani::assume(n < 1_000_000_000);
    set_now(s, n)
}

/// `#[kani::stub(tokio::time::Instant::now, crate::verif_common::now_fixed)]`: the solver-side twin of the
/// clock_gettime override above (Kani does not resolve foreign calls to Rust definitions, so both are needed)
pub(crate) fn now_fixed() -> tokio::time::Instant {
    unsafe { mk_instant(FAKE_NOW.0 as u32, FAKE_NOW.1) }
}

/// stub for tokio::time::Instant::now: every call returns an arbitrary instant
pub(crate) fn now_any() -> tokio::time::Instant {
    any_instant()
}

pub(crate) fn dur_ms(ms: u64) -> std::time::Duration {
    std::time::Duration::new(ms / 1000, ((ms % 1000) as u32) * 1_000_000)
}

/// self-check of the Instant fabrication
// @harness c00_instant_layout
// @props C04,C18,C19,C17
// @tier quick
// @timeout 120
// @units verif_common::mk_instant (harness helper), std Instant add / checked_duration_since / Ord
// @bounds secs < 2^32, nanos < 1e9, added duration < 2^20 s with ms resolution
#[kani::proof]
#[kani::unwind(3)]
fn c00_instant_layout() {
    let s: u32 = kani::any();
    let n: u32 = kani::any();
    kani::assume(n < 1_000_000_000);
    let ds: u32 = kani::any();
    let dms: u32 = kani::any();
    kani::assume(ds < (1 << 20) && dms < 1000);
    let d = std::time::Duration::new(ds as u64, dms * 1_000_000);
    let a = mk_instant(s, n);
    let b = a + d;
    assert!(b.checked_duration_since(a) == Some(d));
    if ds > 0 || dms > 0 {
        assert!(a.checked_duration_since(b).is_none());
        assert!(b > a);
    } else {
        assert!(a == b);
    }
    let sum = n + dms * 1_000_000;
    let (carry, nn) = if sum >= 1_000_000_000 { (1u64, sum - 1_000_000_000) } else { (0u64, sum) };
    let exp_s = s as u64 + ds as u64 + carry;
    if exp_s <= u32::MAX as u64 {
        assert!(b == mk_instant(exp_s as u32, nn));
    }
    kani::cover!(carry == 1);
    kani::cover!(ds == 0 && dms == 0);
}

/// poll a future exactly once with a no-op waker; `None` = it would have had to wait (harness failure for the
/// synchronous-in-practice async functions this is used on)
pub(crate) fn poll_once<F: std::future::Future>(f: F) -> Option<F::Output> {
    use std::task::{Context, Poll, RawWaker, RawWakerVTable, Waker};
    fn clone(_: *const ()) -> RawWaker {
        RawWaker::new(std::ptr::null(), &VT)
    }
    fn noop(_: *const ()) {}
    static VT: RawWakerVTable = RawWakerVTable::new(clone, noop, noop, noop);
    let waker = unsafe { Waker::from_raw(RawWaker::new(std::ptr::null(), &VT)) };
    let mut cx = Context::from_waker(&waker);
    let mut f = std::pin::pin!(f);
    match f.as_mut().poll(&mut cx) {
        Poll::Ready(x) => Some(x),
        Poll::Pending => None,
    }
}
