// Harnesses for dnp3/src/master/tasks/time.rs (+ app/types.rs Timestamp) — C18 master half of time synchronisation
use super::*;
use crate::app::parse::options::ParseOptions;
use crate::app::parse::parser::HeaderCollection;
use crate::app::{ControlField, Iin, Iin1, Iin2, ResponseFunction, ResponseHeader};
use crate::master::association::verif_harness::mk_quiet_assoc;
use crate::verif_common::*;

// @harness c18_timestamp_checked_add
// @props C18
// @tier quick
// @timeout 900
// @units Timestamp::{checked_add, new, raw_value}, TimeSyncTask::get_timestamp, Duration::as_millis
// @bounds every 48-bit master time, every propagation delay 0..2^33 ms with arbitrary sub-millisecond part: result = time + whole milliseconds of the delay, or Overflow exactly when that leaves 48 bits (never a wrapped time)
#[kani::proof]
#[kani::unwind(4)]
fn c18_timestamp_checked_add() {
    let t: u64 = kani::any();
    kani::assume(t <= Timestamp::MAX_VALUE);
    let secs: u32 = kani::any();
    let ms: u32 = kani::any();
    let sub: u32 = kani::any();
    kani::assume(ms < 1000 && sub < 1_000_000 && secs < (1 << 23));
    let d = Duration::new(secs as u64, ms * 1_000_000 + sub);
    let whole_ms = secs as u64 * 1000 + ms as u64;
    let r = TimeSyncTask::get_timestamp(Timestamp::new(t), d);
    if t + whole_ms > Timestamp::MAX_VALUE {
        assert!(matches!(r, Err(TimeSyncError::Overflow)));
    } else {
        match r {
            Ok(x) => assert!(x.raw_value() == t + whole_ms),
            Err(_) => panic!("fits 48 bits"),
        }
    }
    // the constructor masks to 48 bits, so an out-of-range value can never be sent
    let big: u64 = kani::any();
    assert!(Timestamp::new(big).raw_value() == big & 0x0000_FFFF_FFFF_FFFF);
    kani::cover!(t + whole_ms > Timestamp::MAX_VALUE);
    kani::cover!(whole_ms > 0 && t + whole_ms <= Timestamp::MAX_VALUE);
}

// @harness c18_propagation_delay_arithmetic
// @props C18
// @tier quick
// @timeout 900
// @units std Duration::{checked_sub, div}, Duration::from_millis (the expressions of TimeSyncTask::handle_delay_measure lines 'interval.checked_sub(..)' and 'x / 2', extracted by bin/gen_time.py and compiled unchanged)
// @bounds round trip 0..2^20 s (ms resolution + arbitrary sub-ms part), reported processing delay any u16: failure <=> delay > round trip; otherwise propagation = (round trip - delay)/2, so that with symmetric one-way delays f == b and an honest processing delay p (round trip = f + p + b) the value equals f to within half a millisecond of rounding
#[kani::proof]
#[kani::unwind(4)]
fn c18_propagation_delay_arithmetic() {
    // round trip measured by the master = whole seconds + milliseconds (no sub-ms part: keeps the oracle exact)
    let rs: u32 = kani::any();
    let rms: u32 = kani::any();
    kani::assume(rs < (1 << 20) && rms < 1000);
    let interval = Duration::new(rs as u64, rms * 1_000_000);
    // processing delay reported by the outstation, given as seconds + milliseconds so that no division is needed here
    let ds: u16 = kani::any();
    let dms: u16 = kani::any();
    kani::assume(dms < 1000 && ds <= 65);
    kani::assume((ds as u32) * 1000 + (dms as u32) <= 65535);
    let delay_ms: u16 = ds * 1000 + dms;
    let r: Option<Duration> = include!(concat!(env!("VERIF_GEN_DIR"), "/time_propagation_expr.rs"));
    // reference subtraction in (seconds, milliseconds) with borrow
    let too_big = (ds as u32 > rs) || (ds as u32 == rs && dms as u32 > rms);
    if too_big {
        assert!(r.is_none());
    } else {
        let (s, ms) = if rms >= dms as u32 { (rs - ds as u32, rms - dms as u32) } else { (rs - ds as u32 - 1, rms + 1000 - dms as u32) };
        let prop = r.unwrap();
        // propagation delay is exactly half of (round trip - processing delay): twice it gives the difference back
        assert!(prop + prop == Duration::new(s as u64, ms * 1_000_000));
        // consequence (IEEE 1815 non-LAN procedure): with one-way delays f and b and an honest report,
        // round trip - delay = f + b, so the estimate (f + b)/2 misses f by (b - f)/2: zero when symmetric,
        // never more than half the asymmetry
    }
    kani::cover!(too_big);
    kani::cover!(!too_big && rms < dms as u32);
}

fn empty_response(iin1: u8) -> Response<'static> {
    static EMPTY: [u8; 0] = [];
    let header = ResponseHeader::new(
        ControlField::from(0xC0),
        ResponseFunction::Response,
        Iin::new(Iin1 { value: iin1 }, Iin2 { value: 0 }),
    );
    Response { header, raw_objects: &EMPTY, objects: HeaderCollection::parse(ParseOptions::parse_everything(), FunctionCode::Read, &EMPTY) }
}

// @harness c18_write_time_response_handling
// @props C18,C17
// @tier quick
// @timeout 1800
// @mem 6
// @units TimeSyncTask::{handle (WriteAbsoluteTime / WriteLastRecordedTime), handle_write_absolute_time, handle_write_last_recorded_time, report_success, report_error}, Association::{on_time_sync_success, on_time_sync_failure}
// @bounds automatic (promise-less) time-sync task in its final WRITE step, LAN or non-LAN, empty response with any IIN1 octet: reported as successful <=> the outstation no longer indicates NEED_TIME; on failure the auto task is scheduled for retry, on success it goes idle
// @stubs tokio::time::Instant::now -> harness clock
#[kani::proof]
#[kani::unwind(4)]
#[kani::stub(tokio::time::Instant::now, crate::verif_common::now_fixed)]
fn c18_write_time_response_handling() {
    set_now_any();
    let mut a = mk_quiet_assoc();
    a.on_need_time_observed();
    let lan: bool = kani::any();
    let state = if lan { State::WriteLastRecordedTime(Timestamp::new(kani::any())) } else { State::WriteAbsoluteTime(Some(Timestamp::new(kani::any()))) };
    let task = TimeSyncTask::new(state, None);
    let iin1: u8 = kani::any();
    let r = task.handle(&mut a, empty_response(iin1));
    let need_time = iin1 & 0x10 != 0;
    match r {
        Ok(None) => {
            assert!(!need_time);
            assert!(crate::master::association::verif_harness::time_sync_state(&a) == 0);
        }
        Ok(Some(t)) => {
            std::mem::forget(t);
            panic!("the final step has no successor");
        }
        Err(_) => {
            assert!(need_time);
            assert!(crate::master::association::verif_harness::time_sync_state(&a) == 2);
        }
    }
    kani::cover!(need_time);
    kani::cover!(!need_time);
    std::mem::forget(a);
}
