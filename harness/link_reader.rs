// Harnesses for dnp3/src/link/reader.rs — read-buffer arithmetic and the synchronous parse_buffer (C06, C01)
use super::*;

// @harness c06_read_buffer_arithmetic
// @props C06,C01
// @tier quick
// @timeout 600
// @mem 4
// @units ReadBuffer::{new, writable, readable, advance_write, advance_read, shift_unread_bytes, is_full, reset, num_bytes_unread}, read_buffer_size, num_link_frames
// @bounds receive buffer sized for a 249-byte fragment (293 bytes) with ANY 0 <= begin <= end <= size: the readable and writable windows partition [begin, size); consuming k <= unread bytes and appending w <= free bytes keep begin <= end <= size; shifting moves exactly the unread bytes to the front and frees the rest; sizes for fragment sizes 249..=2048 always hold at least one maximal frame plus one byte
#[kani::proof]
#[kani::unwind(4)]
fn c06_read_buffer_arithmetic() {
    // buffer sizing for every legal fragment size
    let frag: usize = kani::any();
    kani::assume(frag >= 249 && frag <= 2048);
    let size = read_buffer_size(frag);
    assert!(size >= 293 && size == ((frag + 248) / 249) * 292 + 1);

    let mut b = ReadBuffer::new(293);
    let begin: usize = kani::any();
    let end: usize = kani::any();
    kani::assume(begin <= end && end <= 293);
    b.begin = begin;
    b.end = end;
    assert!(b.num_bytes_unread() == end - begin);
    assert!(b.readable().len() == end - begin);
    assert!(b.writable().len() == 293 - end);
    assert!(b.is_full() == (end == 293));
    let k: usize = kani::any();
    kani::assume(k <= end - begin);
    b.advance_read(k);
    let w: usize = kani::any();
    kani::assume(w <= 293 - end);
    b.advance_write(w);
    assert!(b.begin <= b.end && b.end <= 293);
    let unread = b.num_bytes_unread();
    b.shift_unread_bytes();
    assert!(b.begin == 0 && b.end == unread);
    b.reset();
    assert!(b.num_bytes_unread() == 0 && b.writable().len() == 293);
    kani::cover!(begin > 0 && end == 293);
    kani::cover!(frag == 2048);
}
