// Harnesses for dnp3/src/master/association.rs (+ app/retry.rs) — C17 (start-up / restart handling, back-off, gating),
// C15 (duplicate unsolicited detection, integrity gate), C19 (link-status deadline)
use super::*;
use crate::app::verif_retry::{any_duration_ms, any_strategy};
use crate::app::{ExponentialBackOff, RetryStrategy};
use crate::app::{ControlField, Iin1, Iin2, ResponseFunction};
use crate::master::tasks::NonReadTask;
use crate::util::phys::PhysAddr;
use crate::verif_common::*;
use std::time::Duration;

struct RH;
impl ReadHandler for RH {}
struct AH;
impl AssociationHandler for AH {
    fn get_current_time(&self) -> Option<Timestamp> {
        None
    }
}
struct AI;
impl AssociationInformation for AI {}

fn any_ec() -> EventClasses {
    EventClasses::new(kani::any(), kani::any(), kani::any())
}

fn any_config() -> AssociationConfig {
    let mut c = AssociationConfig::new(any_ec(), any_ec(), Classes::new(kani::any(), any_ec()), any_ec());
    c.auto_integrity_scan_on_buffer_overflow = kani::any();
    c.auto_time_sync = if kani::any() { Some(TimeSyncProcedure::Lan) } else { None };
    c.keep_alive_timeout = None;
    c
}

fn mk_assoc(config: AssociationConfig) -> Association {
    let addr = FragmentAddr { link: EndpointAddress::raw(1), phys: PhysAddr::None };
    Association::new(addr, config, Box::new(RH), Box::new(AH), Box::new(AI))
}

/// 0 idle, 1 pending, 2 failed (waiting for retry)
fn any_state(code: u8, strategy: RetryStrategy) -> AutoTaskState {
    match code {
        0 => AutoTaskState::Idle,
        1 => AutoTaskState::Pending,
        _ => AutoTaskState::Failed(ExponentialBackOff::new(strategy), any_instant()),
    }
}

fn code_of(s: &AutoTaskState) -> u8 {
    match s {
        AutoTaskState::Idle => 0,
        AutoTaskState::Pending => 1,
        AutoTaskState::Failed(_, _) => 2,
    }
}

// @harness c17_auto_task_failure_schedules_retry
// @props C17
// @tier quick
// @timeout 900
// @units AutoTaskState::{failure, create_next_task (via is_pending), demand, done}
// @bounds any task state (idle / pending / failed with a back-off that has seen one failure), any clock reading: after a failure the task waits until now + delay with delay from the back-off (first failure: min); it stays pending; demand() does not shorten a retry wait; done() clears it
// @stubs tokio::time::Instant::now -> harness clock
#[kani::proof]
#[kani::unwind(4)]
#[kani::stub(tokio::time::Instant::now, crate::verif_common::now_fixed)]
fn c17_auto_task_failure_schedules_retry() {
    let st = any_strategy();
    let mut cfg = AssociationConfig::quiet();
    cfg.auto_tasks_retry_strategy = st;
    let code: u8 = kani::any();
    kani::assume(code < 3);
    let mut s = any_state(code, st);
    let mut prev_delay = None;
    if let AutoTaskState::Failed(b, _) = &mut s {
        prev_delay = Some(b.on_failure()); // one earlier failure: last == min
    }
    let now = set_now_any();
    s.failure(&cfg);
    match &s {
        AutoTaskState::Failed(b, next) => {
            let d = crate::app::verif_retry::last_of(b).unwrap();
            assert!(*next == now + d);
            assert!(d >= st.min_delay && d <= st.max_delay);
            match prev_delay {
                None => assert!(d == st.min_delay),
                Some(p) => assert!(d == if p + p > st.max_delay { st.max_delay } else { p + p }),
            }
        }
        _ => panic!("a failed task must wait for its retry"),
    }
    assert!(s.is_pending());
    assert!(!s.demand());
    assert!(code_of(&s) == 2);
    s.done();
    assert!(s.is_idle());
    kani::cover!(code == 2);
    kani::cover!(code == 0);
}

// @harness c17_restart_and_iin_rearm
// @props C17
// @tier quick
// @timeout 900
// @mem 4
// @units Association::{process_iin, on_restart_iin_observed, on_need_time_observed, on_event_buffer_overflow_observed, is_integrity_complete}, TaskStates::on_restart_iin, AutoTaskState::demand
// @bounds a real Association, any configuration (class sets, overflow-scan flag, time-sync on/off), all six automatic-task states arbitrary (idle/pending/failed), integrity-done flag arbitrary, ANY two IIN octets: restart indication (when the clear-restart task is idle) re-arms exactly clear-restart, integrity and enable-unsolicited and invalidates the integrity-done flag; need-time arms time-sync; overflow arms integrity iff configured; tasks waiting for a retry are never reset by an indication; events-available mirrors the class bits
// @stubs tokio::time::Instant::now -> harness clock
#[kani::proof]
#[kani::unwind(4)]
#[kani::stub(tokio::time::Instant::now, crate::verif_common::now_fixed)]
fn c17_restart_and_iin_rearm() {
    set_now_any();
    let cfg = any_config();
    let st = cfg.auto_tasks_retry_strategy;
    let mut a = mk_assoc(cfg);
    let c: [u8; 6] = kani::any();
    kani::assume(c[0] < 3 && c[1] < 3 && c[2] < 3 && c[3] < 3 && c[4] < 3 && c[5] < 3);
    a.auto_tasks.disable_unsolicited = any_state(c[0], st);
    a.auto_tasks.integrity_scan = any_state(c[1], st);
    a.auto_tasks.enabled_unsolicited = any_state(c[2], st);
    a.auto_tasks.clear_restart_iin = any_state(c[3], st);
    a.auto_tasks.time_sync = any_state(c[4], st);
    a.auto_tasks.event_scan = any_state(c[5], st);
    let done0: bool = kani::any();
    a.startup_integrity_done = done0;
    let iin = Iin::new(Iin1 { value: kani::any() }, Iin2 { value: kani::any() });
    a.process_iin(iin);

    let restart = iin.iin1.value & 0x80 != 0;
    let need_time = iin.iin1.value & 0x10 != 0;
    let overflow = iin.iin2.value & 0x08 != 0;
    let t = &a.auto_tasks;
    let arm = |c: u8, cond: bool| if cond && c == 0 { 1 } else { c };
    let rearm = restart && c[3] == 0;
    assert!(code_of(&t.clear_restart_iin) == arm(c[3], rearm));
    assert!(code_of(&t.enabled_unsolicited) == arm(c[2], rearm));
    assert!(code_of(&t.integrity_scan) == arm(arm(c[1], rearm), overflow && cfg.auto_integrity_scan_on_buffer_overflow));
    assert!(code_of(&t.time_sync) == arm(c[4], need_time));
    assert!(code_of(&t.disable_unsolicited) == c[0]);
    assert!(a.startup_integrity_done == (done0 && !rearm));
    // unsolicited data is not accepted again until the integrity poll has been repeated
    if rearm && cfg.startup_integrity_classes.any() {
        assert!(!a.is_integrity_complete());
    }
    assert!(a.is_integrity_complete() == (!cfg.startup_integrity_classes.any() || a.startup_integrity_done));
    assert!(a.events_available.class1 == (iin.iin1.value & 0x02 != 0));
    assert!(a.events_available.class2 == (iin.iin1.value & 0x04 != 0));
    assert!(a.events_available.class3 == (iin.iin1.value & 0x08 != 0));
    let scan = (a.events_available & cfg.event_scan_on_events_available).any();
    assert!(code_of(&t.event_scan) == arm(c[5], scan));
    kani::cover!(rearm && done0);
    kani::cover!(restart && c[3] == 2);
    kani::cover!(overflow && c[1] == 0);
    std::mem::forget(a);
}

// @harness c17_reset_rearms_startup
// @props C17,C15
// @tier quick
// @timeout 900
// @mem 4
// @units Association::reset, TaskStates::{new, reset}
// @bounds any task states, integrity flag and last-unsolicited record, empty user queue: a session reset (new connection) re-arms disable-unsolicited, integrity and enable-unsolicited, idles the rest, invalidates the integrity-done flag and forgets the last unsolicited fragment (so the first unsolicited response of the new connection is not mistaken for a repeat)
// @stubs tokio::time::Instant::now -> harness clock
#[kani::proof]
#[kani::unwind(4)]
#[kani::stub(tokio::time::Instant::now, crate::verif_common::now_fixed)]
fn c17_reset_rearms_startup() {
    set_now_any();
    let cfg = any_config();
    let st = cfg.auto_tasks_retry_strategy;
    let mut a = mk_assoc(cfg);
    let c: [u8; 6] = kani::any();
    kani::assume(c[0] < 3 && c[1] < 3 && c[2] < 3 && c[3] < 3 && c[4] < 3 && c[5] < 3);
    a.auto_tasks.disable_unsolicited = any_state(c[0], st);
    a.auto_tasks.integrity_scan = any_state(c[1], st);
    a.auto_tasks.enabled_unsolicited = any_state(c[2], st);
    a.auto_tasks.clear_restart_iin = any_state(c[3], st);
    a.auto_tasks.time_sync = any_state(c[4], st);
    a.auto_tasks.event_scan = any_state(c[5], st);
    a.startup_integrity_done = kani::any();
    if kani::any() {
        let h = ResponseHeader::new(ControlField::from(kani::any()), ResponseFunction::UnsolicitedResponse, Iin::default());
        a.last_unsol_frag = Some(LastUnsolFragment { header: h, hash: kani::any() });
    }
    a.reset(RunError::Link(crate::link::error::LinkError::Stdio(std::io::ErrorKind::UnexpectedEof)));
    let t = &a.auto_tasks;
    assert!(code_of(&t.disable_unsolicited) == 1 && code_of(&t.integrity_scan) == 1 && code_of(&t.enabled_unsolicited) == 1);
    assert!(code_of(&t.clear_restart_iin) == 0 && code_of(&t.time_sync) == 0 && code_of(&t.event_scan) == 0);
    assert!(!a.startup_integrity_done && a.last_unsol_frag.is_none());
    kani::cover!(c[1] == 2);
    std::mem::forget(a);
}

// @harness c15_last_unsolicited_equality
// @props C15
// @tier quick
// @timeout 900
// @mem 4
// @units LastUnsolFragment::{new, eq}, xxh64 (real)
// @bounds two unsolicited responses with arbitrary control/IIN octets and 0 or 1 arbitrary object byte each (the real xxh64 on longer inputs is intractable for the SAT back end): treated as the same fragment <=> same header AND same digest of the object bytes; identical bytes are always recognised as a repeat (the converse up to hash collisions)
#[kani::proof]
#[kani::unwind(8)]
fn c15_last_unsolicited_equality() {
    let h1 = ResponseHeader::new(ControlField::from(kani::any()), ResponseFunction::UnsolicitedResponse, Iin::new(Iin1 { value: kani::any() }, Iin2 { value: kani::any() }));
    let h2 = ResponseHeader::new(ControlField::from(kani::any()), ResponseFunction::UnsolicitedResponse, Iin::new(Iin1 { value: kani::any() }, Iin2 { value: kani::any() }));
    let o1: [u8; 1] = kani::any();
    let o2: [u8; 1] = kani::any();
    let n: usize = if kani::any() { 0 } else { 1 };
    let empty: [u8; 0] = [];
    let hc = crate::app::parse::parser::HeaderCollection::parse(crate::app::parse::options::ParseOptions::parse_everything(), FunctionCode::Read, &empty);
    let r1 = Response { header: h1, raw_objects: &o1[..n], objects: hc };
    let r2 = Response { header: h2, raw_objects: &o2[..n], objects: hc };
    let f1 = LastUnsolFragment::new(&r1);
    let f2 = LastUnsolFragment::new(&r2);
    let same_header = h1.control.to_u8() == h2.control.to_u8() && h1.iin == h2.iin;
    let same_bytes = n == 0 || o1[0] == o2[0];
    if same_header && same_bytes {
        assert!(f1 == f2);
    }
    if !same_header {
        assert!(f1 != f2);
    }
    assert!((f1 == f2) == (same_header && f1.hash == f2.hash));
    kani::cover!(f1 == f2);
    kani::cover!(same_header && !same_bytes);
}

// @harness c19_link_status_deadline
// @props C19
// @tier quick
// @timeout 900
// @mem 4
// @units Association::{on_link_activity, next_link_status_task via next_link_status_deadline}
// @bounds any keep-alive setting (none / 1 ms..1 h), any clock: after link activity the keep-alive deadline is exactly now + timeout (none when disabled) - a link status request is due only after that much silence
// @stubs tokio::time::Instant::now -> harness clock
#[kani::proof]
#[kani::unwind(4)]
#[kani::stub(tokio::time::Instant::now, crate::verif_common::now_fixed)]
fn c19_link_status_deadline() {
    set_now_any();
    let mut cfg = AssociationConfig::quiet();
    let ka = any_duration_ms(3_600_000);
    let enabled: bool = kani::any();
    cfg.keep_alive_timeout = if enabled { Some(ka) } else { None };
    let mut a = mk_assoc(cfg);
    let now = set_now_any();
    a.on_link_activity();
    assert!(a.next_link_status_deadline == if enabled { Some(now + ka) } else { None });
    kani::cover!(enabled);
    std::mem::forget(a);
}

pub(crate) fn mk_quiet_assoc() -> Association {
    mk_assoc(AssociationConfig::quiet())
}

/// 0 idle, 1 pending, 2 waiting for retry
pub(crate) fn time_sync_state(a: &Association) -> u8 {
    code_of(&a.auto_tasks.time_sync)
}

static mut RH_CALLS: u8 = 0;
struct CountingRH;
impl ReadHandler for CountingRH {
    fn begin_fragment(&mut self, _read_type: ReadType, _header: ResponseHeader) -> crate::app::MaybeAsync<()> {
        unsafe { RH_CALLS += 1 };
        crate::app::MaybeAsync::ready(())
    }
}

// @harness c15_unsolicited_gate_and_repeat
// @props C15,C17
// @tier thorough
// @class attempt
// @timeout 1800
// @mem 8
// @units Association::{handle_unsolicited_response (async, polled once), is_integrity_complete, on_integrity_scan_complete}, LastUnsolFragment, extract_measurements
// @bounds a data-bearing unsolicited fragment (g2v1 one event, constant bytes; control octet arbitrary) arriving BEFORE the start-up integrity poll completed: not accepted (no confirm), not delivered, and NOT remembered - so that the byte-identical retransmission after the integrity poll is delivered exactly once and only a further copy is treated as a repeat (confirmed, not delivered again)
// @stubs tokio::time::Instant::now -> harness clock
#[kani::proof]
#[kani::unwind(8)]
#[kani::stub(tokio::time::Instant::now, crate::verif_common::now_fixed)]
fn c15_unsolicited_gate_and_repeat() {
    set_now_any();
    let addr = FragmentAddr { link: EndpointAddress::raw(1), phys: PhysAddr::None };
    let mut a = Association::new(addr, AssociationConfig::default(), Box::new(CountingRH), Box::new(AH), Box::new(AI));
    unsafe { RH_CALLS = 0 };
    let objs = [2u8, 1, 0x17, 1, 5, 0x81];
    let hc = crate::app::parse::parser::HeaderCollection::parse(crate::app::parse::options::ParseOptions::parse_everything(), FunctionCode::UnsolicitedResponse, &objs);
    assert!(hc.is_ok());
    let seq: u8 = kani::any();
    let header = ResponseHeader::new(ControlField::from(0xF0 | (seq & 0x0F)), ResponseFunction::UnsolicitedResponse, Iin::default());
    let rsp = Response { header, raw_objects: &objs, objects: hc };
    // 1. before integrity completion
    assert!(!a.is_integrity_complete());
    assert!(poll_once(a.handle_unsolicited_response(&rsp)) == Some(false));
    assert!(unsafe { RH_CALLS } == 0);
    // 2. integrity poll done, the outstation retries the same fragment
    a.on_integrity_scan_complete();
    assert!(poll_once(a.handle_unsolicited_response(&rsp)) == Some(true));
    assert!(unsafe { RH_CALLS } == 1);
    // 3. a further identical copy is a repeat: confirmed, not delivered again
    assert!(poll_once(a.handle_unsolicited_response(&rsp)) == Some(true));
    assert!(unsafe { RH_CALLS } == 1);
    kani::cover!(true);
    std::mem::forget(a);
}

#[derive(PartialEq, Clone, Copy)]
enum Kind {
    None,
    Wait,
    ClearRestart,
    Disable,
    Integrity,
    TimeSync,
    Enable,
    EventScan,
    Other,
}

fn kind(n: &Next<Task>) -> Kind {
    match n {
        Next::None => Kind::None,
        Next::NotBefore(_) => Kind::Wait,
        Next::Now(Task::App(AppTask::NonRead(NonReadTask::Auto(AutoTask::ClearRestartBit)))) => Kind::ClearRestart,
        Next::Now(Task::App(AppTask::NonRead(NonReadTask::Auto(AutoTask::DisableUnsolicited(_))))) => Kind::Disable,
        Next::Now(Task::App(AppTask::NonRead(NonReadTask::Auto(AutoTask::EnableUnsolicited(_))))) => Kind::Enable,
        Next::Now(Task::App(AppTask::Read(ReadTask::StartupIntegrity(_)))) => Kind::Integrity,
        Next::Now(Task::App(AppTask::Read(ReadTask::EventScan(_)))) => Kind::EventScan,
        Next::Now(Task::App(AppTask::NonRead(NonReadTask::TimeSync(_)))) => Kind::TimeSync,
        _ => Kind::Other,
    }
}

// @harness c17_auto_task_priority
// @props C17
// @tier thorough
// @class attempt
// @timeout 900
// @mem 12
// @units TaskStates::next, AutoTaskState::create_next_task
// @bounds all six automatic-task states idle or pending (no retry waits), any configuration (class sets, time sync on/off), any events-available bits: the task chosen is the FIRST applicable one in the order clear-restart > disable-unsolicited > integrity > time-sync > enable-unsolicited > event-scan (so unsolicited reporting is enabled only after integrity and time sync, and a restart is acknowledged before anything else).  Attempt-and-report: the result is a big task enum returned by value.
// @stubs tokio::time::Instant::now -> harness clock
#[kani::proof]
#[kani::unwind(4)]
#[kani::stub(tokio::time::Instant::now, crate::verif_common::now_fixed)]
fn c17_auto_task_priority() {
    set_now_any();
    let cfg = any_config();
    let st = cfg.auto_tasks_retry_strategy;
    let mut a = mk_assoc(cfg);
    let c: [u8; 6] = kani::any();
    kani::assume(c[0] < 2 && c[1] < 2 && c[2] < 2 && c[3] < 2 && c[4] < 2 && c[5] < 2);
    a.auto_tasks.disable_unsolicited = any_state(c[0], st);
    a.auto_tasks.integrity_scan = any_state(c[1], st);
    a.auto_tasks.enabled_unsolicited = any_state(c[2], st);
    a.auto_tasks.clear_restart_iin = any_state(c[3], st);
    a.auto_tasks.time_sync = any_state(c[4], st);
    a.auto_tasks.event_scan = any_state(c[5], st);
    a.events_available = any_ec();
    let n = a.auto_tasks.next(&a.config, &a);
    let k = kind(&n);
    let expect = if c[3] == 1 {
        Kind::ClearRestart
    } else if cfg.disable_unsol_classes.any() && c[0] == 1 {
        Kind::Disable
    } else if cfg.startup_integrity_classes.any() && c[1] == 1 {
        Kind::Integrity
    } else if c[4] == 1 && cfg.auto_time_sync.is_some() {
        Kind::TimeSync
    } else if cfg.enable_unsol_classes.any() && c[2] == 1 {
        Kind::Enable
    } else if (a.events_available & cfg.event_scan_on_events_available).any() {
        if c[5] == 1 { Kind::EventScan } else { Kind::None }
    } else {
        Kind::None
    };
    assert!(k == expect);
    kani::cover!(k == Kind::Enable);
    kani::cover!(k == Kind::Integrity);
    std::mem::forget(n);
    std::mem::forget(a);
}

// The stubs below return values whose enum discriminant is a CONSTANT of the harness: CBMC then prunes the
// `Next::Now(x) => Next::Now(x)` arms of get_next_task (moving the 104-byte Task stalls its symbolic execution) and only
// the deadline arithmetic is left.
static mut POLL_AT: (u32, u32) = (0, 0);
fn poll_next_none(_m: &crate::master::poll::PollMap, _now: Instant) -> Next<crate::master::poll::Poll> {
    Next::None
}
fn poll_next_later(_m: &crate::master::poll::PollMap, _now: Instant) -> Next<crate::master::poll::Poll> {
    Next::NotBefore(mk_instant(unsafe { POLL_AT.0 }, unsafe { POLL_AT.1 }))
}
static mut KA_AT: (u32, u32) = (0, 0);
fn link_status_none(_a: &Association, _now: Instant) -> Next<Task> {
    Next::None
}
/// what Association::next_link_status_task answers while the keep-alive deadline lies in the future
fn link_status_later(a: &Association, now: Instant) -> Next<Task> {
    let d = mk_instant(unsafe { KA_AT.0 }, unsafe { KA_AT.1 });
    assert!(a.next_link_status_deadline == Some(d) && now < d);
    Next::NotBefore(d)
}
fn no_auto_task(_s: &TaskStates, _c: &AssociationConfig, _a: &Association) -> Next<Task> {
    Next::None
}

fn next_task_case(has_poll: bool, has_ka: bool) -> (Instant, Instant) {
    let now = set_now_any();
    let mut a = mk_quiet_assoc();
    let ps: u32 = kani::any();
    let pn: u32 = kani::any();
    kani::assume(pn < 1_000_000_000);
    let p = mk_instant(ps, pn);
    kani::assume(p > now);
    unsafe { POLL_AT = (ps, pn) };
    let ds: u32 = kani::any();
    let dn: u32 = kani::any();
    kani::assume(dn < 1_000_000_000);
    let d = mk_instant(ds, dn);
    kani::assume(now < d);
    unsafe { KA_AT = (ds, dn) };
    a.next_link_status_deadline = if has_ka { Some(d) } else { None };
    let r = a.get_next_task(now);
    match (has_poll, has_ka) {
        (false, false) => assert!(matches!(r, Next::None)),
        (true, false) => assert!(matches!(r, Next::NotBefore(x) if x == p)),
        (false, true) => assert!(matches!(r, Next::NotBefore(x) if x == d)),
        (true, true) => {
            let e = if p <= d { p } else { d };
            assert!(matches!(r, Next::NotBefore(x) if x == e));
        }
    }
    kani::cover!(true);
    std::mem::forget(r);
    std::mem::forget(a);
    (p, d)
}

// @harness c19_next_task_earliest_deadline
// @props C19
// @tier quick
// @timeout 900
// @mem 4
// @units Association::get_next_task
// @bounds an association with nothing automatic to do, any clock, the poll map reporting "next poll not before P" and the keep-alive deadline D, both arbitrary instants in the future: the association wakes at the EARLIER of P and D
// @stubs PollMap::next -> NotBefore(P) (the BTreeMap walk behind it: c19_poll_period_and_demand / c19_smallest_deadline); Association::next_link_status_task -> NotBefore(D) (asserts that D is the stored deadline and lies in the future: exact on the paths explored); TaskStates::next -> nothing to do (its order: c17_auto_task_order); tokio::time::Instant::now -> harness clock.  The stubs return constant enum variants so that the Task-moving arms are pruned (DESIGN 12).
// @outside poll due now / keep-alive due now (the `Now` arms), automatic tasks pending
// @replay trace
#[kani::proof]
#[kani::unwind(4)]
#[kani::stub(tokio::time::Instant::now, crate::verif_common::now_fixed)]
#[kani::stub(crate::master::poll::PollMap::next, poll_next_later)]
#[kani::stub(TaskStates::next, no_auto_task)]
#[kani::stub(Association::next_link_status_task, link_status_later)]
fn c19_next_task_earliest_deadline() {
    let (p, d) = next_task_case(true, true);
    kani::cover!(d < p);
    kani::cover!(p < d);
}

// @harness c19_next_task_single_deadline
// @props C19
// @tier quick
// @timeout 900
// @mem 4
// @units Association::get_next_task
// @bounds as above with only a poll (no keep-alive configured): wakes at P
// @stubs as c19_next_task_earliest_deadline with next_link_status_task -> None
// @replay trace
#[kani::proof]
#[kani::unwind(4)]
#[kani::stub(tokio::time::Instant::now, crate::verif_common::now_fixed)]
#[kani::stub(crate::master::poll::PollMap::next, poll_next_later)]
#[kani::stub(TaskStates::next, no_auto_task)]
#[kani::stub(Association::next_link_status_task, link_status_none)]
fn c19_next_task_single_deadline() {
    let _ = next_task_case(true, false);
}

// @harness c19_next_task_keep_alive_only
// @props C19
// @tier quick
// @timeout 900
// @mem 4
// @units Association::get_next_task
// @bounds no polls configured: wakes at the keep-alive deadline D, or has nothing to wait for when there is none
// @stubs as c19_next_task_earliest_deadline with PollMap::next -> None
// @replay trace
#[kani::proof]
#[kani::unwind(4)]
#[kani::stub(tokio::time::Instant::now, crate::verif_common::now_fixed)]
#[kani::stub(crate::master::poll::PollMap::next, poll_next_none)]
#[kani::stub(TaskStates::next, no_auto_task)]
#[kani::stub(Association::next_link_status_task, link_status_later)]
fn c19_next_task_keep_alive_only() {
    let _ = next_task_case(false, true);
}

/// Replaces AutoTaskState::create_next_task: never builds a Task (the 104-byte task enum stalls CBMC, DESIGN 12) and
/// reports WHICH state was asked through the instant each marked state carries
fn create_next_task_mark(s: &AutoTaskState, _builder: impl FnOnce() -> Task) -> Next<Task> {
    match s {
        AutoTaskState::Idle => Next::None,
        AutoTaskState::Pending => Next::NotBefore(mk_instant(99, 0)),
        AutoTaskState::Failed(_, next) => Next::NotBefore(*next),
    }
}

fn marked(code: u8, mark: u32, strategy: RetryStrategy) -> AutoTaskState {
    if code == 0 {
        AutoTaskState::Idle
    } else {
        AutoTaskState::Failed(ExponentialBackOff::new(strategy), mk_instant(mark, 0))
    }
}

// @harness c17_auto_task_order
// @props C17
// @tier quick
// @timeout 900
// @mem 4
// @units TaskStates::next (the fixed priority order of the six automatic tasks), AutoTaskState::is_pending
// @bounds each of the six automatic-task states idle or not, any configuration (class sets for disable / integrity / enable / event scan, automatic time sync on or off), any events-available bits: the state that is consulted - and therefore the task that runs or whose retry is waited for - is the FIRST applicable one in the order clear-restart > disable-unsolicited > integrity > time-sync > enable-unsolicited > event-scan; so a restart is acknowledged before anything else, unsolicited reporting is switched on only after the integrity poll and time sync are out of the way, and nothing else runs while an earlier step waits for its retry
// @stubs AutoTaskState::create_next_task -> returns NotBefore(the mark stored in the consulted state) and never calls the task constructor (which task object is built for the chosen state, and Pending/retry-due => Now, are outside: building the 104-byte Task stalls CBMC's symbolic execution, see c17_auto_task_priority)
// @outside the Task values themselves; dynamic re-arming (c17_restart_and_iin_rearm, c17_reset_rearms_startup); retry timing (c17_auto_task_failure_schedules_retry)
// @replay trace
#[kani::proof]
#[kani::unwind(4)]
#[kani::stub(tokio::time::Instant::now, crate::verif_common::now_fixed)]
#[kani::stub(AutoTaskState::create_next_task, create_next_task_mark)]
fn c17_auto_task_order() {
    set_now_any();
    let cfg = any_config();
    let st = cfg.auto_tasks_retry_strategy;
    let mut a = mk_assoc(cfg);
    let c: [u8; 6] = kani::any();
    kani::assume(c[0] < 2 && c[1] < 2 && c[2] < 2 && c[3] < 2 && c[4] < 2 && c[5] < 2);
    a.auto_tasks.disable_unsolicited = marked(c[0], 1000, st);
    a.auto_tasks.integrity_scan = marked(c[1], 1001, st);
    a.auto_tasks.enabled_unsolicited = marked(c[2], 1002, st);
    a.auto_tasks.clear_restart_iin = marked(c[3], 1003, st);
    a.auto_tasks.time_sync = marked(c[4], 1004, st);
    a.auto_tasks.event_scan = marked(c[5], 1005, st);
    a.events_available = any_ec();
    let n = a.auto_tasks.next(&a.config, &a);
    // 0 = nothing to do, otherwise the mark of the state that must be consulted
    let expect: u32 = if c[3] == 1 {
        1003
    } else if cfg.disable_unsol_classes.any() && c[0] == 1 {
        1000
    } else if cfg.startup_integrity_classes.any() && c[1] == 1 {
        1001
    } else if c[4] == 1 && cfg.auto_time_sync.is_some() {
        1004
    } else if cfg.enable_unsol_classes.any() && c[2] == 1 {
        1002
    } else if (a.events_available & cfg.event_scan_on_events_available).any() && c[5] == 1 {
        1005
    } else {
        0
    };
    match n {
        Next::None => assert!(expect == 0),
        Next::NotBefore(t) => assert!(expect != 0 && t == mk_instant(expect, 0)),
        Next::Now(_) => panic!("the stub never builds a task"),
    }
    kani::cover!(expect == 1002);
    kani::cover!(expect == 1000 && c[2] == 1 && c[1] == 1);
    kani::cover!(expect == 0 && c[2] == 1);
    std::mem::forget(n);
    std::mem::forget(a);
}
