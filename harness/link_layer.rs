// Harnesses for dnp3/src/link/layer.rs — C07 (link addressing, direction, FCB), C01
use super::*;

fn any_layer() -> Layer {
    let et = if kani::any() { EndpointType::Master } else { EndpointType::Outstation };
    let sa = if kani::any() { Feature::Enabled } else { Feature::Disabled };
    let local: u16 = kani::any();
    kani::assume(local < 0xFFF0);
    let mut l = Layer::new(
        LinkModes::stream(crate::link::LinkErrorMode::Close),
        249,
        et,
        sa,
        EndpointAddress::raw(local),
    );
    let st: u8 = kani::any();
    kani::assume(st < 3);
    l.secondary_state = match st {
        0 => SecondaryState::NotReset,
        1 => SecondaryState::Reset(false),
        _ => SecondaryState::Reset(true),
    };
    l
}

fn state_code(l: &Layer) -> u8 {
    match l.secondary_state {
        SecondaryState::NotReset => 0,
        SecondaryState::Reset(false) => 1,
        SecondaryState::Reset(true) => 2,
    }
}

// @harness c07_process_header
// @props C07,C01
// @tier quick
// @timeout 300
// @units Layer::process_header, Layer::get_header, ControlField::from, AnyAddress::from, Function::from
// @bounds every control byte (256) x every destination (2^16) x every source (2^16) x both roles x self-address on/off x every local endpoint address x every secondary-station state {NotReset, Reset(0), Reset(1)}; one frame, then the same frame again
// @outside that Layer::read_one writes exactly the reply process_header returns (async I/O)
#[kani::proof]
#[kani::unwind(2)]
fn c07_process_header() {
    let mut l = any_layer();
    let ctrl: u8 = kani::any();
    let dest: u16 = kani::any();
    let src: u16 = kani::any();
    let header = Header::new(ControlField::from(ctrl), AnyAddress::from(dest), AnyAddress::from(src));
    let local = l.local_address.raw_value();
    let is_master = matches!(l.endpoint_type, EndpointType::Master);
    let self_en = l.self_address.is_enabled();
    let st0 = state_code(&l);

    let (info, reply) = l.process_header(header, PhysAddr::None);
    let st1 = state_code(&l);

    // ---- oracle, from the property text and IEEE 1815 link rules
    let from_master = ctrl & 0x80 != 0;
    let opposite = from_master != is_master;
    let src_ok = src < 0xFFF0;
    let is_broadcast = dest >= 0xFFFD;
    let to_us = dest == local || (dest == 0xFFFC && self_en) || (!is_master && is_broadcast);
    let fcb = ctrl & 0x20 != 0;
    let fcv = ctrl & 0x10 != 0;
    let func = ctrl & 0x4F; // PRM + function nibble
    let acted = info.is_some() || reply.is_some();

    // (a) acts only on traffic addressed to it, from the opposite station type, from a non-reserved source
    if acted {
        assert!(opposite && src_ok && to_us);
    }
    if !(opposite && src_ok && to_us) {
        assert!(st1 == st0);
    }
    // (b) broadcasts are never answered at the link layer, and carry user data only
    if is_broadcast {
        assert!(reply.is_none());
        if info.is_some() {
            assert!(func == 0x44 || func == 0x43);
            assert!(matches!(info.unwrap().frame_type, FrameType::Data));
        }
    }
    // broadcast mode is reported exactly for the three broadcast addresses
    if let Some(i) = &info {
        assert!(i.source.raw_value() == src);
        let expect = match dest {
            0xFFFF => Some(BroadcastConfirmMode::Optional),
            0xFFFE => Some(BroadcastConfirmMode::Mandatory),
            0xFFFD => Some(BroadcastConfirmMode::NotRequired),
            _ => None,
        };
        assert!(i.broadcast == expect);
    }
    // every reply goes back to the requester, from our address, with our direction bit
    if let Some(r) = &reply {
        assert!(r.address.raw_value() == src);
        let h = l.get_header(Reply::new(r.address, r.function));
        assert!(h.destination.value() == src && h.source.value() == local);
        assert!(h.control.master == is_master);
        assert!(!h.control.fcv && !h.control.fcb);
    }
    let eligible = opposite && src_ok && to_us;
    // (c) link status requests so addressed are always answered (not by broadcast)
    if eligible && !is_broadcast && func == 0x49 && !fcv {
        assert!(matches!(reply.as_ref().map(|r| r.function), Some(Function::SecLinkStatus)));
        assert!(matches!(info.map(|i| i.frame_type), Some(FrameType::LinkStatusRequest)));
    }
    // reset link states: acked, next expected FCB is 1
    if eligible && !is_broadcast && func == 0x40 && !fcv {
        assert!(matches!(reply.as_ref().map(|r| r.function), Some(Function::SecAck)));
        assert!(info.is_none() && st1 == 2);
    }
    // unconfirmed user data: delivered once, never answered
    if eligible && func == 0x44 {
        assert!(reply.is_none());
        assert!(info.is_some() == !fcv);
        assert!(st1 == st0);
    }
    // (d) confirmed user data: delivered iff the link was reset and the FCB is the expected one; then the expectation toggles
    if eligible && func == 0x43 {
        let expected_match = (st0 == 1 && !fcb) || (st0 == 2 && fcb);
        assert!(info.is_some() == (fcv && expected_match));
        if fcv && st0 != 0 {
            assert!(reply.is_some() == !is_broadcast);
        }
        if info.is_some() {
            assert!(st1 != st0 && st1 != 0);
            // the same frame again (a retransmission) is acknowledged but NOT delivered a second time
            let (info2, reply2) = l.process_header(header, PhysAddr::None);
            assert!(info2.is_none());
            assert!(reply2.is_some() == !is_broadcast);
            assert!(state_code(&l) == st1);
        } else {
            assert!(st1 == st0);
        }
    }
    // nothing else is ever delivered upward as data
    if let Some(i) = &info {
        match i.frame_type {
            FrameType::Data => assert!(func == 0x44 || func == 0x43),
            FrameType::LinkStatusRequest => assert!(func == 0x49),
            FrameType::LinkStatusResponse => assert!(func == 0x0B),
        }
    }
    kani::cover!(reply.is_some());
    kani::cover!(info.is_some() && is_broadcast);
    kani::cover!(eligible && func == 0x43 && info.is_some());
    kani::cover!(!acted && opposite);
}

// @harness c07_layer_reset
// @props C07
// @tier quick
// @timeout 120
// @units Layer::reset
// @bounds any secondary state: after reset (new connection) confirmed user data is not delivered until the link is reset again
#[kani::proof]
#[kani::unwind(2)]
fn c07_layer_reset() {
    let mut l = any_layer();
    l.reset();
    assert!(state_code(&l) == 0);
    let fcb: bool = kani::any();
    let ctrl = (if matches!(l.endpoint_type, EndpointType::Master) { 0x00 } else { 0x80 }) | 0x43 | 0x10 | if fcb { 0x20 } else { 0 };
    let src: u16 = kani::any();
    let header = Header::new(ControlField::from(ctrl), AnyAddress::from(l.local_address.raw_value()), AnyAddress::from(src));
    let (info, _reply) = l.process_header(header, PhysAddr::None);
    assert!(info.is_none());
    kani::cover!(src < 0xFFF0);
}
