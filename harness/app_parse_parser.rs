// Harnesses for dnp3/src/app/parse/parser.rs — C09 (parser accepts exactly what group/variation/qualifier/count imply,
// iteration = validation), C01 (no panic on arbitrary object bytes).  The per-variation family is generated
// (bin/gen_objects.py -> app_parse_parser_gen.rs); the drivers are the macros below.
use super::*;
use crate::app::parse::bytes::{PrefixedBytesSequence, RangedBytesSequence};
use crate::app::parse::count::CountSequence;
use crate::app::parse::range::RangedSequence;
use crate::app::parse::traits::FixedSize;
use crate::app::variations::*;
use scursor::WriteCursor;

fn any_opts() -> ParseOptions {
    ParseOptions { parse_zero_length_strings: kani::any() }
}

/// re-encode a decoded object and compare with the bytes it came from
fn same_bytes<T: FixedSize, const S: usize>(item: &T, src: &[u8]) -> bool {
    let mut out = [0u8; S];
    {
        let mut c = WriteCursor::new(&mut out);
        if item.write(&mut c).is_err() {
            return false;
        }
    }
    let mut i = 0;
    while i < S {
        if out[i] != src[i] {
            return false;
        }
        i += 1;
    }
    true
}

/// SIZE == oracle, write produces SIZE bytes, read consumes SIZE bytes
fn size_check<T: FixedSize, const S: usize>() {
    assert!(T::SIZE as usize == S);
    let src: [u8; S] = kani::any();
    let mut rc = scursor::ReadCursor::new(&src);
    let item = match T::read(&mut rc) {
        Ok(x) => x,
        Err(_) => panic!("SIZE bytes must be enough to read one object"),
    };
    assert!(rc.position() == S);
    let mut out = [0u8; 20];
    let mut wc = WriteCursor::new(&mut out);
    assert!(item.write(&mut wc).is_ok());
    assert!(wc.position() == S);
}

fn non_read_function() -> FunctionCode {
    // the functions that carry object data in this library's grammar; the parser only distinguishes READ / non-READ
    if kani::any() { FunctionCode::Response } else { FunctionCode::Write }
}

macro_rules! ranged_fixed_case {
    ($v:expr, $variant:path, $ty:ty, $size:expr, $wide:expr) => {{
        const SIZE: usize = $size;
        const HDR: usize = if $wide { 4 } else { 2 };
        const N: usize = 2 * SIZE + 1;
        assert!(<$ty as FixedSize>::SIZE as usize == SIZE); // code's size table == oracle (IEEE 1815 Annex A)
        let bytes: [u8; HDR + N] = kani::any();
        let read: bool = kani::any();
        let function = if read { FunctionCode::Read } else { non_read_function() };
        let mut p = ObjectParser::one_pass(any_opts(), function, &bytes);
        let (start, stop) = if $wide {
            (u16::from_le_bytes([bytes[0], bytes[1]]), u16::from_le_bytes([bytes[2], bytes[3]]))
        } else {
            (bytes[0] as u16, bytes[1] as u16)
        };
        let r = if $wide { p.parse_start_stop_u16($v) } else { p.parse_start_stop_u8($v) };
        let count = if stop >= start { (stop - start) as usize + 1 } else { 0 };
        match r {
            Ok(hdr) => {
                assert!(stop >= start);
                assert!(hdr.variation == $v);
                let consumed = p.cursor.position();
                let rv = match hdr.details {
                    HeaderDetails::OneByteStartStop(s, e, rv) => {
                        assert!(!$wide && s as u16 == start && e as u16 == stop);
                        rv
                    }
                    HeaderDetails::TwoByteStartStop(s, e, rv) => {
                        assert!($wide && s == start && e == stop);
                        rv
                    }
                    _ => panic!("range qualifier must give a start-stop header"),
                };
                match rv {
                    $variant(seq) => {
                        if read {
                            assert!(consumed == HDR);
                            assert!(seq.iter().next().is_none());
                        } else {
                            assert!(consumed == HDR + SIZE * count);
                            let mut n = 0usize;
                            for (item, idx) in seq.iter() {
                                assert!(n < count);
                                assert!(idx as usize == start as usize + n);
                                assert!(same_bytes::<$ty, SIZE>(&item, &bytes[HDR + n * SIZE..HDR + (n + 1) * SIZE]));
                                n += 1;
                            }
                            assert!(n == count);
                            // the lazily re-parsed second pass sees the same thing as the validating first pass
                            let mut p2 = ObjectParser::one_pass(p.options, function, &bytes);
                            let r2 = if $wide { p2.parse_start_stop_u16($v) } else { p2.parse_start_stop_u8($v) };
                            assert!(r2.is_ok() && p2.cursor.position() == consumed);
                            kani::cover!(n == 2);
                        }
                    }
                    _ => panic!("wrong container variant for this variation"),
                }
            }
            Err(e) => {
                // a rejection needs a reason
                let short = !read && SIZE * count > N;
                assert!(stop < start || short);
                if stop < start {
                    assert!(matches!(e, ObjectParseError::InvalidRange(_, _)));
                }
                kani::cover!(short && stop >= start);
            }
        }
    }};
}

macro_rules! ranged_bits_case {
    ($v:expr, $variant:path, $per:expr, $wide:expr) => {{
        const PER: usize = $per; // values per byte: 8 single bits or 4 double bits
        const HDR: usize = if $wide { 4 } else { 2 };
        const N: usize = 2;
        let bytes: [u8; HDR + N] = kani::any();
        let read: bool = kani::any();
        let function = if read { FunctionCode::Read } else { non_read_function() };
        let mut p = ObjectParser::one_pass(any_opts(), function, &bytes);
        let (start, stop) = if $wide {
            (u16::from_le_bytes([bytes[0], bytes[1]]), u16::from_le_bytes([bytes[2], bytes[3]]))
        } else {
            (bytes[0] as u16, bytes[1] as u16)
        };
        let r = if $wide { p.parse_start_stop_u16($v) } else { p.parse_start_stop_u8($v) };
        let count = if stop >= start { (stop - start) as usize + 1 } else { 0 };
        let need = (count + PER - 1) / PER;
        match r {
            Ok(hdr) => {
                assert!(stop >= start);
                let consumed = p.cursor.position();
                let rv = match hdr.details {
                    HeaderDetails::OneByteStartStop(_, _, rv) => rv,
                    HeaderDetails::TwoByteStartStop(_, _, rv) => rv,
                    _ => panic!("range qualifier must give a start-stop header"),
                };
                match rv {
                    $variant(seq) => {
                        if read {
                            assert!(consumed == HDR);
                            assert!(seq.iter().next().is_none());
                        } else {
                            assert!(consumed == HDR + need && need <= N);
                            let mut n = 0usize;
                            for (value, idx) in seq.iter() {
                                assert!(n < count);
                                assert!(idx as usize == start as usize + n);
                                let byte = bytes[HDR + n / PER];
                                let raw = if PER == 8 { (byte >> (n % 8)) & 1 } else { (byte >> (2 * (n % 4))) & 3 };
                                assert!(bits_code(&value) == raw);
                                n += 1;
                            }
                            assert!(n == count);
                            kani::cover!(n == PER + 1);
                            kani::cover!(!$wide || (stop == 65535 && n > 1));
                        }
                    }
                    _ => panic!("wrong container variant for this variation"),
                }
            }
            Err(_) => {
                assert!(stop < start || (!read && need > N));
            }
        }
    }};
}

trait BitsCode {
    fn code(&self) -> u8;
}
impl BitsCode for bool {
    fn code(&self) -> u8 {
        *self as u8
    }
}
impl BitsCode for crate::app::measurement::DoubleBit {
    fn code(&self) -> u8 {
        // IEEE 1815: 0 intermediate, 1 determined off, 2 determined on, 3 indeterminate
        match self {
            crate::app::measurement::DoubleBit::Intermediate => 0,
            crate::app::measurement::DoubleBit::DeterminedOff => 1,
            crate::app::measurement::DoubleBit::DeterminedOn => 2,
            crate::app::measurement::DoubleBit::Indeterminate => 3,
        }
    }
}
fn bits_code<T: BitsCode>(x: &T) -> u8 {
    x.code()
}

macro_rules! ranged_bytes_case {
    ($len:expr, $wide:expr) => {{
        const LEN: usize = $len;
        const HDR: usize = if $wide { 4 } else { 2 };
        const N: usize = 2 * LEN + 1;
        let bytes: [u8; HDR + N] = kani::any();
        let opts = any_opts();
        let function = non_read_function();
        let mut p = ObjectParser::one_pass(opts, function, &bytes);
        let (start, stop) = if $wide {
            (u16::from_le_bytes([bytes[0], bytes[1]]), u16::from_le_bytes([bytes[2], bytes[3]]))
        } else {
            (bytes[0] as u16, bytes[1] as u16)
        };
        let v = Variation::Group110(LEN as u8);
        let r = if $wide { p.parse_start_stop_u16(v) } else { p.parse_start_stop_u8(v) };
        let count = if stop >= start { (stop - start) as usize + 1 } else { 0 };
        match r {
            Ok(hdr) => {
                assert!(stop >= start);
                assert!(LEN != 0 || opts.parse_zero_length_strings);
                let consumed = p.cursor.position();
                assert!(consumed == HDR + LEN * count);
                let rv = match hdr.details {
                    HeaderDetails::OneByteStartStop(_, _, rv) => rv,
                    HeaderDetails::TwoByteStartStop(_, _, rv) => rv,
                    _ => panic!("range qualifier must give a start-stop header"),
                };
                match rv {
                    RangedVariation::Group110VarX(l, seq) => {
                        assert!(l as usize == LEN);
                        if LEN > 0 {
                            // (for LEN == 0 the count is not bounded by the bytes present; iteration is covered by the LEN > 0 cases)
                            let mut n = 0usize;
                            for (s, idx) in seq.iter() {
                                assert!(n < count);
                                assert!(idx as usize == start as usize + n);
                                assert!(s.len() == LEN);
                                assert!(s[0] == bytes[HDR + n * LEN]);
                                n += 1;
                            }
                            assert!(n == count);
                        } else {
                            let mut it = seq.iter();
                            match it.next() {
                                Some((s, idx)) => assert!(s.is_empty() && idx == start),
                                None => panic!("count >= 1"),
                            }
                        }
                        kani::cover!(count >= 1);
                    }
                    _ => panic!("wrong container variant"),
                }
            }
            Err(_) => {
                assert!(stop < start || LEN * count > N || (LEN == 0 && !opts.parse_zero_length_strings));
            }
        }
    }};
}

macro_rules! count_fixed_case {
    ($v:expr, $variant:path, $ty:ty, $size:expr, $wide:expr) => {{
        const SIZE: usize = $size;
        const HDR: usize = if $wide { 2 } else { 1 };
        const N: usize = 2 * SIZE + 1;
        assert!(<$ty as FixedSize>::SIZE as usize == SIZE);
        let bytes: [u8; HDR + N] = kani::any();
        let function = if kani::any() { FunctionCode::Read } else { non_read_function() };
        let mut p = ObjectParser::one_pass(any_opts(), function, &bytes);
        let count = if $wide { u16::from_le_bytes([bytes[0], bytes[1]]) as usize } else { bytes[0] as usize };
        let r = if $wide { p.parse_count_u16($v) } else { p.parse_count_u8($v) };
        match r {
            Ok(hdr) => {
                let consumed = p.cursor.position();
                assert!(consumed == HDR + SIZE * count);
                let cv = match hdr.details {
                    HeaderDetails::OneByteCount(c, cv) => {
                        assert!(!$wide && c as usize == count);
                        cv
                    }
                    HeaderDetails::TwoByteCount(c, cv) => {
                        assert!($wide && c as usize == count);
                        cv
                    }
                    _ => panic!("count qualifier must give a count header"),
                };
                match cv {
                    $variant(seq) => {
                        let mut n = 0usize;
                        for item in seq.iter() {
                            assert!(n < count);
                            assert!(same_bytes::<$ty, SIZE>(&item, &bytes[HDR + n * SIZE..HDR + (n + 1) * SIZE]));
                            n += 1;
                        }
                        assert!(n == count);
                        assert!(seq.single().is_some() == (count == 1));
                        kani::cover!(n == 2);
                    }
                    _ => panic!("wrong container variant"),
                }
            }
            Err(_) => {
                assert!(SIZE * count > N);
                kani::cover!(true);
            }
        }
    }};
}

macro_rules! prefixed_fixed_case {
    ($v:expr, $variant:path, $ty:ty, $size:expr, $idx:ty, $isz:expr) => {{
        const SIZE: usize = $size;
        const ISZ: usize = $isz;
        const HDR: usize = ISZ; // the count field is as wide as the index prefix
        const ITEM: usize = ISZ + SIZE;
        const N: usize = 2 * ITEM + 1;
        assert!(<$ty as FixedSize>::SIZE as usize == SIZE);
        let bytes: [u8; HDR + N] = kani::any();
        let function = non_read_function();
        let mut p = ObjectParser::one_pass(any_opts(), function, &bytes);
        let count = if ISZ == 2 { u16::from_le_bytes([bytes[0], bytes[1]]) as usize } else { bytes[0] as usize };
        let r = if ISZ == 2 {
            p.parse_count_and_prefix_u16($v).map(|h| match h.details {
                HeaderDetails::TwoByteCountAndPrefix(c, pv) => (c as usize, Prefixed::W(pv)),
                _ => panic!("wrong header kind"),
            })
        } else {
            p.parse_count_and_prefix_u8($v).map(|h| match h.details {
                HeaderDetails::OneByteCountAndPrefix(c, pv) => (c as usize, Prefixed::N(pv)),
                _ => panic!("wrong header kind"),
            })
        };
        match r {
            Ok((c, pv)) => {
                let consumed = p.cursor.position();
                assert!(c == count);
                assert!(consumed == HDR + ITEM * count);
                let mut n = 0usize;
                match pv {
                    Prefixed::N($variant(seq)) => {
                        for item in seq.iter() {
                            assert!(n < count);
                            let off = HDR + n * ITEM;
                            assert!(item.index.widen_to_u16() == bytes[off] as u16);
                            assert!(same_bytes::<$ty, SIZE>(&item.value, &bytes[off + ISZ..off + ITEM]));
                            n += 1;
                        }
                    }
                    Prefixed::W($variant(seq)) => {
                        for item in seq.iter() {
                            assert!(n < count);
                            let off = HDR + n * ITEM;
                            assert!(item.index.widen_to_u16() == u16::from_le_bytes([bytes[off], bytes[off + 1]]));
                            assert!(same_bytes::<$ty, SIZE>(&item.value, &bytes[off + ISZ..off + ITEM]));
                            n += 1;
                        }
                    }
                    _ => panic!("wrong container variant"),
                }
                assert!(n == count);
                kani::cover!(n == 2);
            }
            Err(_) => {
                assert!(ITEM * count > N);
                kani::cover!(true);
            }
        }
    }};
}

enum Prefixed<'a> {
    N(PrefixedVariation<'a, u8>),
    W(PrefixedVariation<'a, u16>),
}

macro_rules! prefixed_bytes_case {
    ($len:expr, $idx:ty, $isz:expr) => {{
        const LEN: usize = $len;
        const ISZ: usize = $isz;
        const HDR: usize = ISZ;
        const ITEM: usize = ISZ + LEN;
        const N: usize = 2 * ITEM + 1;
        let bytes: [u8; HDR + N] = kani::any();
        let opts = any_opts();
        let mut p = ObjectParser::one_pass(opts, non_read_function(), &bytes);
        let count = if ISZ == 2 { u16::from_le_bytes([bytes[0], bytes[1]]) as usize } else { bytes[0] as usize };
        let v = Variation::Group111(LEN as u8);
        let r = if ISZ == 2 {
            p.parse_count_and_prefix_u16(v).map(|h| match h.details {
                HeaderDetails::TwoByteCountAndPrefix(_, pv) => Prefixed::W(pv),
                _ => panic!("wrong header kind"),
            })
        } else {
            p.parse_count_and_prefix_u8(v).map(|h| match h.details {
                HeaderDetails::OneByteCountAndPrefix(_, pv) => Prefixed::N(pv),
                _ => panic!("wrong header kind"),
            })
        };
        match r {
            Ok(pv) => {
                assert!(LEN != 0 || opts.parse_zero_length_strings);
                assert!(p.cursor.position() == HDR + ITEM * count);
                let mut n = 0usize;
                match pv {
                    Prefixed::N(PrefixedVariation::Group111VarX(l, seq)) => {
                        assert!(l as usize == LEN);
                        for (s, idx) in seq.iter() {
                            assert!(n < count && s.len() == LEN);
                            assert!(idx as u16 == bytes[HDR + n * ITEM] as u16);
                            n += 1;
                        }
                    }
                    Prefixed::W(PrefixedVariation::Group111VarX(l, seq)) => {
                        assert!(l as usize == LEN);
                        for (s, idx) in seq.iter() {
                            assert!(n < count && s.len() == LEN);
                            assert!(idx == u16::from_le_bytes([bytes[HDR + n * ITEM], bytes[HDR + n * ITEM + 1]]));
                            n += 1;
                        }
                    }
                    _ => panic!("wrong container variant"),
                }
                assert!(n == count);
                kani::cover!(n == 2);
            }
            Err(_) => {
                assert!(ITEM * count > N || (LEN == 0 && !opts.parse_zero_length_strings));
                kani::cover!(true);
            }
        }
    }};
}

include!(concat!(env!("VERIF_GEN_DIR"), "/app_parse_parser_gen.rs"));

// ------------------------------------------------------------------------------------------ encoder side
// What the request builders' primitives put on the wire, compared octet by octet with IEEE 1815 (object header =
// group, variation, qualifier, range/count field).  The parser half of "what one side encodes the other decodes" is the
// generated family above (same group/variation/qualifier, container function called directly): handing the encoder's
// output to the parser inside one query was tried and runs out of memory (an array that mixes constant and symbolic
// bytes is read back as fully symbolic, which drags every variation's parser in).
use crate::app::format::write::HeaderWriter;
use crate::app::Timestamp;

// @harness c09_enc_request_headers
// @props C09
// @tier quick
// @timeout 600
// @units HeaderWriter::{write_range_only::<u8>, write_range_only::<u16>, write_limited_count::<u8>, write_limited_count::<u16>, write_all_objects_header, write_clear_restart}, Index::{RANGE_QUALIFIER, LIMITED_COUNT_QUALIFIER}, Variation::{write, to_group_and_var}
// @bounds any 8/16-bit start/stop and count: range headers are [g v 00 start stop] / [g v 01 start(LE) stop(LE)], limited-count headers [g v 07 n] / [g v 08 n(LE)], all-objects [g v 06], clear-restart [50h 01 00 07 07 00]
#[kani::proof]
#[kani::unwind(32)]
fn c09_enc_request_headers() {
    let a8: u8 = kani::any();
    let b8: u8 = kani::any();
    let a16: u16 = kani::any();
    let b16: u16 = kani::any();
    let mut buf = [0u8; 32];
    let n = {
        let mut c = WriteCursor::new(&mut buf);
        let mut w = HeaderWriter::new(&mut c);
        assert!(w.write_range_only(Variation::Group30Var0, a8, b8).is_ok());
        assert!(w.write_range_only(Variation::Group20Var0, a16, b16).is_ok());
        assert!(w.write_limited_count(Variation::Group2Var0, a8).is_ok());
        assert!(w.write_limited_count(Variation::Group22Var0, a16).is_ok());
        assert!(w.write_all_objects_header(Variation::Group60Var3).is_ok());
        assert!(w.write_clear_restart().is_ok());
        c.position()
    };
    let (al, ah) = ((a16 & 0xff) as u8, (a16 >> 8) as u8);
    let (bl, bh) = ((b16 & 0xff) as u8, (b16 >> 8) as u8);
    let expect = [
        30, 0, 0x00, a8, b8, //
        20, 0, 0x01, al, ah, bl, bh, //
        2, 0, 0x07, a8, //
        22, 0, 0x08, al, ah, //
        60, 3, 0x06, //
        80, 1, 0x00, 7, 7, 0,
    ];
    assert!(n == 30);
    let mut i = 0;
    while i < 30 {
        assert!(buf[i] == expect[i]);
        i += 1;
    }
    kani::cover!(a16 > 255);
}

// @harness c09_enc_count_of_one_time
// @props C09,C18
// @tier quick
// @timeout 600
// @units HeaderWriter::write_count_of_one::<Group50Var1> / ::<Group50Var3>, Timestamp::write
// @bounds WRITE g50v1 / g50v3 with any 48-bit time (the two time-sync writes): [32h var 07 01 time(6 bytes LE)]
#[kani::proof]
#[kani::unwind(4)]
fn c09_enc_count_of_one_time() {
    let t: u64 = kani::any();
    kani::assume(t <= Timestamp::MAX_VALUE);
    let lan: bool = kani::any();
    let mut buf = [0u8; 12];
    {
        let mut c = WriteCursor::new(&mut buf);
        let mut w = HeaderWriter::new(&mut c);
        if lan {
            assert!(w.write_count_of_one(Group50Var3 { time: Timestamp::new(t) }).is_ok());
        } else {
            assert!(w.write_count_of_one(Group50Var1 { time: Timestamp::new(t) }).is_ok());
        }
        assert!(c.position() == 10);
    }
    let b = t.to_le_bytes();
    assert!(buf[0] == 50 && buf[1] == if lan { 3 } else { 1 } && buf[2] == 0x07 && buf[3] == 1);
    assert!(buf[4] == b[0] && buf[5] == b[1] && buf[6] == b[2] && buf[7] == b[3] && buf[8] == b[4] && buf[9] == b[5]);
    kani::cover!(lan);
    kani::cover!(!lan);
}

// @harness c09_qualifier_codes
// @props C09
// @tier quick
// @timeout 120
// @units QualifierCode::{from, as_u8}
// @bounds all 256 qualifier bytes: exactly the eight codes of IEEE 1815 Table 4-? (00 01 06 07 08 17 28 5B) are known and they round-trip
#[kani::proof]
#[kani::unwind(2)]
fn c09_qualifier_codes() {
    let x: u8 = kani::any();
    let known = matches!(x, 0x00 | 0x01 | 0x06 | 0x07 | 0x08 | 0x17 | 0x28 | 0x5B);
    match QualifierCode::from(x) {
        Some(q) => {
            assert!(known);
            assert!(q.as_u8() == x);
            let expect = match x {
                0x00 => QualifierCode::Range8,
                0x01 => QualifierCode::Range16,
                0x06 => QualifierCode::AllObjects,
                0x07 => QualifierCode::Count8,
                0x08 => QualifierCode::Count16,
                0x17 => QualifierCode::CountAndPrefix8,
                0x28 => QualifierCode::CountAndPrefix16,
                _ => QualifierCode::FreeFormat16,
            };
            assert!(q == expect);
        }
        None => assert!(!known),
    }
    kani::cover!(known);
    kani::cover!(!known);
}

fn fragment_header_case(func: u8) {
    let ctrl: u8 = kani::any();
    let i1: u8 = kani::any();
    let i2: u8 = kani::any();
    let b = [ctrl, func, i1, i2];
    // length 0/1: always insufficient
    assert!(matches!(ParsedFragment::parse(any_opts(), &b[..0]), Err(HeaderParseError::InsufficientBytes)));
    assert!(matches!(ParsedFragment::parse(any_opts(), &b[..1]), Err(HeaderParseError::InsufficientBytes)));
    let is_rsp = func == 0x81 || func == 0x82;
    match ParsedFragment::parse(any_opts(), &b[..2]) {
        Ok(f) => {
            assert!(!is_rsp);
            assert!(f.control.to_u8() == ctrl && f.function.as_u8() == func && f.iin.is_none());
            assert!(f.raw_objects.is_empty() && f.raw_fragment.len() == 2);
            assert!(matches!(f.objects, Ok(c) if c.is_empty()));
            // request validation: FIR+FIN required, UNS only on CONFIRM
            let fir_fin = ctrl & 0xC0 == 0xC0;
            let uns = ctrl & 0x10 != 0;
            assert!(f.to_request().is_ok() == (fir_fin && (!uns || func == 0)));
            assert!(f.to_response().is_err());
        }
        Err(HeaderParseError::UnknownFunction(seq, x)) => {
            assert!(x == func && seq.value() == ctrl & 0x0F && FunctionCode::from(x).is_none());
        }
        Err(HeaderParseError::InsufficientBytes) => assert!(is_rsp),
    }
    if is_rsp {
        match ParsedFragment::parse(any_opts(), &b[..4]) {
            Ok(f) => {
                let iin = f.iin.unwrap();
                assert!(iin.iin1.value == i1 && iin.iin2.value == i2);
                assert!(f.control.to_u8() == ctrl && f.function.as_u8() == func);
                assert!(f.to_request().is_err());
                // response validation (C15): UNS <=> unsolicited function, unsolicited => FIR and FIN
                let uns = ctrl & 0x10 != 0;
                let fir_fin = ctrl & 0xC0 == 0xC0;
                let ok = if func == 0x82 { uns && fir_fin } else { !uns };
                match f.to_response() {
                    Ok(r) => {
                        assert!(ok);
                        assert!(r.header.control.to_u8() == ctrl && r.header.iin.iin1.value == i1 && r.header.iin.iin2.value == i2);
                        assert!(r.header.function.is_unsolicited() == (func == 0x82));
                    }
                    Err(_) => assert!(!ok),
                }
            }
            Err(_) => panic!("a 4-byte response header is complete"),
        }
    }
    kani::cover!(true);
}

macro_rules! fragment_header {
    ($name:ident, $f:expr) => {
        #[kani::proof]
        #[kani::unwind(6)]
        fn $name() {
            fragment_header_case($f)
        }
    };
}
// @harness c09_fragment_header_confirm
// @props C09,C01,C15
// @tier quick
// @timeout 300
// @units ParsedFragment::{parse, to_request, to_response}, ControlField::{parse,to_u8}, FunctionCode::{from,as_u8}, Iin::parse
// @bounds function byte 0x00 constant, control byte and IIN bytes arbitrary, fragment lengths 0,1,2,4: decoded as encoded; request accepted <=> FIR and FIN and (UNS only on CONFIRM); never a response
fragment_header!(c09_fragment_header_confirm, 0x00);
// @harness c09_fragment_header_read
// @props C09,C01,C15
// @tier quick
// @timeout 300
// @units ParsedFragment::{parse, to_request, to_response}
// @bounds function byte 0x01 (READ), as above
fragment_header!(c09_fragment_header_read, 0x01);
// @harness c09_fragment_header_response
// @props C09,C01,C15
// @tier quick
// @timeout 300
// @units ParsedFragment::{parse, to_request, to_response}, ResponseFunction
// @bounds function byte 0x81, control and IIN arbitrary: 2-byte form insufficient, 4-byte form carries the IIN; accepted as response <=> UNS clear; never a request
fragment_header!(c09_fragment_header_response, 0x81);
// @harness c09_fragment_header_unsolicited
// @props C09,C01,C15
// @tier quick
// @timeout 300
// @units ParsedFragment::{parse, to_request, to_response}, ResponseFunction
// @bounds function byte 0x82: accepted as response <=> UNS set and FIR and FIN
fragment_header!(c09_fragment_header_unsolicited, 0x82);
// @harness c09_fragment_header_unknown
// @props C09,C01
// @tier quick
// @timeout 300
// @units ParsedFragment::parse, FunctionCode::from
// @bounds function byte 0x70 (undefined): UnknownFunction with the sequence of the control byte
fragment_header!(c09_fragment_header_unknown, 0x70);
