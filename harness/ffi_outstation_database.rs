// hook module for ffi/dnp3-ffi/src/outstation/database.rs (C20): generated enum harnesses + measurement struct conversions
use super::*;
include!(concat!(env!("VERIF_GEN_DIR"), "/ffi_outstation_database_gen.rs"));

fn any_quality() -> ffi::TimeQuality {
    let k: u8 = kani::any();
    kani::assume(k < 3);
    match k {
        0 => ffi::TimeQuality::SynchronizedTime,
        1 => ffi::TimeQuality::UnsynchronizedTime,
        _ => ffi::TimeQuality::InvalidTime,
    }
}

fn check_time(value: u64, q: &ffi::TimeQuality, got: Option<dnp3::app::measurement::Time>) {
    use dnp3::app::measurement::Time;
    // the three qualities of the binding map to Synchronized / Unsynchronized / no time, value masked to 48 bits
    match (q, got) {
        (ffi::TimeQuality::SynchronizedTime, Some(Time::Synchronized(t))) => assert!(t.raw_value() == value & 0xFFFF_FFFF_FFFF),
        (ffi::TimeQuality::UnsynchronizedTime, Some(Time::Unsynchronized(t))) => assert!(t.raw_value() == value & 0xFFFF_FFFF_FFFF),
        (ffi::TimeQuality::InvalidTime, None) => {}
        _ => panic!("time quality not preserved"),
    }
}

// @harness c20_struct_binary_input
// @props C20
// @tier quick
// @crate dnp3-ffi
// @timeout 300
// @units impl From<ffi::BinaryInput> for BinaryInput, From<ffi::Flags> for Flags, From<ffi::Timestamp> for Option<Time>
// @bounds every value, flag octet, 64-bit time value and the three time qualities: field-for-field
#[kani::proof]
#[kani::unwind(2)]
fn c20_struct_binary_input() {
    let v: bool = kani::any();
    let f: u8 = kani::any();
    let t: u64 = kani::any();
    let q = any_quality();
    let x = ffi::BinaryInput { index: kani::any(), value: v, flags: ffi::Flags { value: f }, time: ffi::TimestampFields { value: t, quality: q.clone() }.into() };
    let y: BinaryInput = x.into();
    assert!(y.value == v && y.flags.value == f);
    check_time(t, &q, y.time);
    kani::cover!(y.time.is_none());
}

// @harness c20_struct_analog_input
// @props C20
// @tier quick
// @crate dnp3-ffi
// @timeout 300
// @units impl From<ffi::AnalogInput> for AnalogInput
// @bounds every f64 bit pattern, flag octet, time value/quality: field-for-field (value bit-identical)
#[kani::proof]
#[kani::unwind(2)]
fn c20_struct_analog_input() {
    let v: f64 = kani::any();
    let f: u8 = kani::any();
    let t: u64 = kani::any();
    let q = any_quality();
    let x = ffi::AnalogInput { index: kani::any(), value: v, flags: ffi::Flags { value: f }, time: ffi::TimestampFields { value: t, quality: q.clone() }.into() };
    let y: AnalogInput = x.into();
    assert!(y.value.to_bits() == v.to_bits() || (v.is_nan() && y.value.is_nan()));
    assert!(y.flags.value == f);
    check_time(t, &q, y.time);
    kani::cover!(v.is_nan());
}

// @harness c20_struct_counter
// @props C20
// @tier quick
// @crate dnp3-ffi
// @timeout 300
// @units impl From<ffi::Counter> for Counter, From<ffi::FrozenCounter> for FrozenCounter
// @bounds every u32 value, flag octet, time value/quality: field-for-field
#[kani::proof]
#[kani::unwind(2)]
fn c20_struct_counter() {
    let v: u32 = kani::any();
    let f: u8 = kani::any();
    let t: u64 = kani::any();
    let q = any_quality();
    let y: Counter = ffi::Counter { index: kani::any(), value: v, flags: ffi::Flags { value: f }, time: ffi::TimestampFields { value: t, quality: q.clone() }.into() }.into();
    assert!(y.value == v && y.flags.value == f);
    check_time(t, &q, y.time);
    let z: FrozenCounter = ffi::FrozenCounter { index: kani::any(), value: v, flags: ffi::Flags { value: f }, time: ffi::TimestampFields { value: t, quality: q.clone() }.into() }.into();
    assert!(z.value == v && z.flags.value == f);
    check_time(t, &q, z.time);
    kani::cover!(true);
}

// @harness c20_update_options
// @props C20
// @tier quick
// @crate dnp3-ffi
// @timeout 300
// @units impl From<ffi::EventClass> for Option<EventClass>
// @bounds the four event classes of the binding (none, 1, 2, 3) map to their namesakes
#[kani::proof]
#[kani::unwind(2)]
fn c20_update_options() {
    let k: u8 = kani::any();
    kani::assume(k < 4);
    let c = match k {
        0 => ffi::EventClass::None,
        1 => ffi::EventClass::Class1,
        2 => ffi::EventClass::Class2,
        _ => ffi::EventClass::Class3,
    };
    let y: Option<EventClass> = c.into();
    match (k, y) {
        (0, None) => {}
        (1, Some(EventClass::Class1)) => {}
        (2, Some(EventClass::Class2)) => {}
        (3, Some(EventClass::Class3)) => {}
        _ => panic!("event class not preserved"),
    }
    kani::cover!(k == 3);
}

// @harness c20_update_options_fields
// @props C20
// @tier quick
// @crate dnp3-ffi
// @timeout 300
// @units impl From<ffi::UpdateOptions> for UpdateOptions, UpdateOptions::new
// @bounds both values of update_static x the three event modes (all six combinations): the converted options are bit-identical to UpdateOptions::new(update_static, namesake mode).  The native fields are private; the two values are compared through their two-byte representation (bool + field-less enum: no padding, same compiler, same layout on both sides)
#[kani::proof]
#[kani::unwind(3)]
fn c20_update_options_fields() {
    let us: bool = kani::any();
    let k: u8 = kani::any();
    kani::assume(k < 3);
    let (fm, nm) = match k {
        0 => (ffi::EventMode::Detect, EventMode::Detect),
        1 => (ffi::EventMode::Force, EventMode::Force),
        _ => (ffi::EventMode::Suppress, EventMode::Suppress),
    };
    let x: ffi::UpdateOptions = ffi::UpdateOptionsFields { update_static: us, event_mode: fm }.into();
    let got: UpdateOptions = x.into();
    let want = UpdateOptions::new(us, nm);
    assert!(std::mem::size_of::<UpdateOptions>() == 2);
    let a: [u8; 2] = unsafe { std::mem::transmute(got) };
    let b: [u8; 2] = unsafe { std::mem::transmute(want) };
    assert!(a[0] == b[0] && a[1] == b[1]);
    kani::cover!(!us && k == 2);
}
