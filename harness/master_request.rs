// Harnesses for dnp3/src/master/request.rs — C16 (a command succeeds only on a faithful echo with status SUCCESS)
use super::*;
use crate::app::parse::count::CountSequence;
use crate::app::parse::prefix::Prefix;
use crate::app::parse::traits::FixedSize;
use scursor::{ReadCursor, WriteCursor};

/// bytes of a faithful echo of `sent` (what an outstation that accepts everything sends back)
fn encode<V: FixedSizeVariation + Command, I: Index, const N: usize>(sent: &[(V, I)]) -> [u8; N] {
    let mut buf = [0u8; N];
    {
        let mut c = WriteCursor::new(&mut buf);
        for (v, i) in sent {
            assert!(Prefix { index: *i, value: *v }.write(&mut c).is_ok());
        }
    }
    buf
}

/// Echo comparison for one header holding 1 or 2 commands.
/// The reply is the faithful echo with optionally ONE byte XOR-ed by an arbitrary non-zero mask, and an object count
/// that is right, one short or one long.  Success is allowed only for the untouched echo of all-SUCCESS commands.
macro_rules! echo_case {
    ($ty:ty, $idx:ty, $mk:expr, $variant:path, $details:path, $pv:path, $item:expr) => {{
        const ITEM: usize = $item; // index prefix + object
        let two: bool = kani::any();
        let a: ($ty, $idx) = ($mk, kani::any());
        let b: ($ty, $idx) = ($mk, kani::any());
        let sent: Vec<($ty, $idx)> = if two { vec![a, b] } else { vec![a] };
        let n = sent.len();
        // room for one object more than was sent (the surplus object is arbitrary)
        let mut wire = [0u8; 3 * ITEM];
        let faithful = encode::<$ty, $idx, { 3 * ITEM }>(&sent);
        let extra: [u8; ITEM] = kani::any();
        let mut i = 0;
        while i < 3 * ITEM {
            wire[i] = if i < n * ITEM { faithful[i] } else { extra[i % ITEM] };
            i += 1;
        }
        // one-byte corruption inside the echoed objects
        let mutate: bool = kani::any();
        let pos: usize = kani::any();
        let mask: u8 = kani::any();
        kani::assume(pos < n * ITEM && mask != 0);
        if mutate {
            wire[pos] ^= mask;
        }
        // object count in the reply
        let delta: u8 = kani::any();
        kani::assume(delta < 3);
        let count = n + delta as usize - 1;
        let mut rc = ReadCursor::new(&wire);
        let seq: CountSequence<Prefix<$idx, $ty>> = CountSequence::parse(count as u16, &mut rc).unwrap();
        let all_success = sent.iter().all(|(v, _)| v.status() == CommandStatus::Success);
        let header = $variant(sent);
        let r = header.compare($details(count as _, $pv(seq)));
        let faithful_reply = !mutate && delta == 1;
        match r {
            Ok(()) => assert!(faithful_reply && all_success),
            Err(CommandResponseError::ObjectCountMismatch) => assert!(delta != 1),
            Err(CommandResponseError::BadStatus(s)) => assert!(s != CommandStatus::Success && (mutate || !all_success)),
            Err(CommandResponseError::ObjectValueMismatch) => assert!(mutate),
            Err(_) => panic!("unexpected error kind"),
        }
        if faithful_reply && all_success {
            assert!(r.is_ok());
        }
        kani::cover!(r.is_ok());
        kani::cover!(mutate && matches!(r, Err(CommandResponseError::ObjectValueMismatch)));
        kani::cover!(delta == 2);
    }};
}

fn any_crob() -> Group12Var1 {
    Group12Var1 {
        code: crate::app::control::ControlCode::from(kani::any()),
        count: kani::any(),
        on_time: kani::any(),
        off_time: kani::any(),
        status: CommandStatus::from(kani::any()),
    }
}

// @harness c16_echo_g12v1_u8
// @props C16
// @tier thorough
// @timeout 5400
// @mem 10
// @units CommandHeader::{compare, compare_items}, Prefix::equals, Group12Var1::{read,write}, ControlCode::{from,as_u8}, CommandStatus::from
// @bounds one header of 1 or 2 CROBs (every field arbitrary, 8-bit indices); reply = faithful echo, optionally with ONE byte XOR-ed by any non-zero mask at any position, object count right / one short / one long: success <=> untouched echo AND every status SUCCESS; otherwise the error names the cause (count, status, value)
#[kani::proof]
#[kani::unwind(40)]
fn c16_echo_g12v1_u8() {
    echo_case!(Group12Var1, u8, any_crob(), CommandHeader::G12V1U8, HeaderDetails::OneByteCountAndPrefix, PrefixedVariation::Group12Var1, 12)
}

// @harness c16_echo_g12v1_u16
// @props C16
// @tier thorough
// @class attempt
// @timeout 3600
// @mem 14
// @units CommandHeader::{compare, compare_items}, Group12Var1
// @bounds as c16_echo_g12v1_u8 with 16-bit indices
#[kani::proof]
#[kani::unwind(42)]
fn c16_echo_g12v1_u16() {
    echo_case!(Group12Var1, u16, any_crob(), CommandHeader::G12V1U16, HeaderDetails::TwoByteCountAndPrefix, PrefixedVariation::Group12Var1, 13)
}

// @harness c16_echo_g41v2_u8
// @props C16
// @tier quick
// @timeout 1800
// @mem 6
// @units CommandHeader::{compare, compare_items}, Group41Var2::{read,write}
// @bounds analog output 16-bit (value, status arbitrary), 8-bit indices, same mutations
#[kani::proof]
#[kani::unwind(16)]
fn c16_echo_g41v2_u8() {
    echo_case!(Group41Var2, u8, Group41Var2 { value: kani::any(), status: CommandStatus::from(kani::any()) }, CommandHeader::G41V2U8, HeaderDetails::OneByteCountAndPrefix, PrefixedVariation::Group41Var2, 4)
}

// @harness c16_echo_g41v1_u16
// @props C16
// @tier thorough
// @timeout 3600
// @mem 6
// @units CommandHeader::{compare, compare_items}, Group41Var1::{read,write}
// @bounds analog output 32-bit, 16-bit indices, same mutations
#[kani::proof]
#[kani::unwind(24)]
fn c16_echo_g41v1_u16() {
    echo_case!(Group41Var1, u16, Group41Var1 { value: kani::any(), status: CommandStatus::from(kani::any()) }, CommandHeader::G41V1U16, HeaderDetails::TwoByteCountAndPrefix, PrefixedVariation::Group41Var1, 7)
}

// @harness c16_echo_g41v3_u8
// @props C16
// @tier thorough
// @timeout 3600
// @mem 6
// @units CommandHeader::{compare, compare_items}, Group41Var3::{read,write}
// @bounds analog output single-precision, 8-bit indices, any bit pattern except NaN and the two zeros (the library compares VALUES with IEEE equality, not octets: NaN never equals itself - a faithful NaN echo is refused - and +0.0 equals -0.0 - an echo that differs only in the sign of a zero is accepted; both are outside what this harness asserts, see DESIGN 13)
#[kani::proof]
#[kani::unwind(20)]
fn c16_echo_g41v3_u8() {
    let mk = || {
        let v: f32 = kani::any();
        kani::assume(!v.is_nan() && v != 0.0);
        Group41Var3 { value: v, status: CommandStatus::from(kani::any()) }
    };
    echo_case!(Group41Var3, u8, mk(), CommandHeader::G41V3U8, HeaderDetails::OneByteCountAndPrefix, PrefixedVariation::Group41Var3, 6)
}

// @harness c16_header_type_mismatch
// @props C16
// @tier quick
// @timeout 900
// @mem 4
// @units CommandHeader::compare
// @bounds a CROB request answered with an analog-output header, with the other index width, or with a non-command header: HeaderTypeMismatch, never success
#[kani::proof]
#[kani::unwind(16)]
fn c16_header_type_mismatch() {
    let sent = CommandHeader::G12V1U8(vec![(any_crob(), kani::any())]);
    let wire: [u8; 13] = kani::any();
    let which: u8 = kani::any();
    kani::assume(which < 3);
    let r = match which {
        0 => {
            let mut rc = ReadCursor::new(&wire);
            let seq: CountSequence<Prefix<u16, Group12Var1>> = CountSequence::parse(1, &mut rc).unwrap();
            sent.compare(HeaderDetails::TwoByteCountAndPrefix(1, PrefixedVariation::Group12Var1(seq)))
        }
        1 => {
            let mut rc = ReadCursor::new(&wire);
            let seq: CountSequence<Prefix<u8, Group41Var2>> = CountSequence::parse(1, &mut rc).unwrap();
            sent.compare(HeaderDetails::OneByteCountAndPrefix(1, PrefixedVariation::Group41Var2(seq)))
        }
        _ => sent.compare(HeaderDetails::AllObjects(crate::app::gen::all::AllObjectsVariation::Group60Var1)),
    };
    assert!(matches!(r, Err(CommandResponseError::HeaderTypeMismatch)));
    kani::cover!(which == 2);
}
