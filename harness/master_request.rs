// Harnesses for dnp3/src/master/request.rs — C16 (a command succeeds only on a faithful echo with status SUCCESS)
use super::*;
use crate::app::parse::count::CountSequence;
use crate::app::parse::prefix::Prefix;
use crate::app::parse::traits::FixedSize;
use scursor::{ReadCursor, WriteCursor};

/// bytes of a faithful echo of `sent` (what an outstation that accepts everything sends back)
fn encode<V: FixedSizeVariation + Command, I: Index, const N: usize>(sent: &[(V, I)]) -> [u8; N] {
    let mut buf = [0u8; N];
    {
        let mut c = WriteCursor::new(&mut buf);
        for (v, i) in sent {
            assert!(Prefix { index: *i, value: *v }.write(&mut c).is_ok());
        }
    }
    buf
}

/// Echo comparison for one header holding 1 or 2 commands.
/// The reply is the faithful echo with optionally ONE byte XOR-ed by an arbitrary non-zero mask, and an object count
/// that is right, one short or one long.  Success is allowed only for the untouched echo of all-SUCCESS commands.
macro_rules! echo_case {
    ($ty:ty, $idx:ty, $mk:expr, $variant:path, $details:path, $pv:path, $item:expr) => {{
        const ITEM: usize = $item; // index prefix + object
        let two: bool = kani::any();
        let a: ($ty, $idx) = ($mk, kani::any());
        let b: ($ty, $idx) = ($mk, kani::any());
        let sent: Vec<($ty, $idx)> = if two { vec![a, b] } else { vec![a] };
        let n = sent.len();
        // room for one object more than was sent (the surplus object is arbitrary)
        let mut wire = [0u8; 3 * ITEM];
        let faithful = encode::<$ty, $idx, { 3 * ITEM }>(&sent);
        let extra: [u8; ITEM] = kani::any();
        let mut i = 0;
        while i < 3 * ITEM {
            wire[i] = if i < n * ITEM { faithful[i] } else { extra[i % ITEM] };
            i += 1;
        }
        // one-byte corruption inside the echoed objects
        let mutate: bool = kani::any();
        let pos: usize = kani::any();
        let mask: u8 = kani::any();
        kani::assume(pos < n * ITEM && mask != 0);
        if mutate {
            wire[pos] ^= mask;
        }
        // object count in the reply
        let delta: u8 = kani::any();
        kani::assume(delta < 3);
        let count = n + delta as usize - 1;
        let mut rc = ReadCursor::new(&wire);
        let seq: CountSequence<Prefix<$idx, $ty>> = CountSequence::parse(count as u16, &mut rc).unwrap();
        let all_success = sent.iter().all(|(v, _)| v.status() == CommandStatus::Success);
        let header = $variant(sent);
        let r = header.compare($details(count as _, $pv(seq)));
        let faithful_reply = !mutate && delta == 1;
        match r {
            Ok(()) => assert!(faithful_reply && all_success),
            Err(CommandResponseError::ObjectCountMismatch) => assert!(delta != 1),
            Err(CommandResponseError::BadStatus(s)) => assert!(s != CommandStatus::Success && (mutate || !all_success)),
            Err(CommandResponseError::ObjectValueMismatch) => assert!(mutate),
            Err(_) => panic!("unexpected error kind"),
        }
        if faithful_reply && all_success {
            assert!(r.is_ok());
        }
        kani::cover!(r.is_ok());
        kani::cover!(mutate && matches!(r, Err(CommandResponseError::ObjectValueMismatch)));
        kani::cover!(delta == 2);
    }};
}

fn any_crob() -> Group12Var1 {
    Group12Var1 {
        code: crate::app::control::ControlCode::from(kani::any()),
        count: kani::any(),
        on_time: kani::any(),
        off_time: kani::any(),
        status: CommandStatus::from(kani::any()),
    }
}

// @harness c16_echo_g12v1_u8
// @props C16
// @tier thorough
// @timeout 5400
// @mem 10
// @units CommandHeader::{compare, compare_items}, Prefix::equals, Group12Var1::{read,write}, ControlCode::{from,as_u8}, CommandStatus::from
// @bounds one header of 1 or 2 CROBs (every field arbitrary, 8-bit indices); reply = faithful echo, optionally with ONE byte XOR-ed by any non-zero mask at any position, object count right / one short / one long: success <=> untouched echo AND every status SUCCESS; otherwise the error names the cause (count, status, value)
#[kani::proof]
#[kani::unwind(40)]
fn c16_echo_g12v1_u8() {
    echo_case!(Group12Var1, u8, any_crob(), CommandHeader::G12V1U8, HeaderDetails::OneByteCountAndPrefix, PrefixedVariation::Group12Var1, 12)
}

// @harness c16_echo_g12v1_u16
// @props C16
// @tier thorough
// @class attempt
// @timeout 1800
// @mem 14
// @units CommandHeader::{compare, compare_items}, Group12Var1
// @bounds as c16_echo_g12v1_u8 with 16-bit indices
#[kani::proof]
#[kani::unwind(42)]
fn c16_echo_g12v1_u16() {
    echo_case!(Group12Var1, u16, any_crob(), CommandHeader::G12V1U16, HeaderDetails::TwoByteCountAndPrefix, PrefixedVariation::Group12Var1, 13)
}

// @harness c16_echo_g41v2_u8
// @props C16
// @tier quick
// @timeout 1800
// @mem 6
// @units CommandHeader::{compare, compare_items}, Group41Var2::{read,write}
// @bounds analog output 16-bit (value, status arbitrary), 8-bit indices, same mutations
#[kani::proof]
#[kani::unwind(16)]
fn c16_echo_g41v2_u8() {
    echo_case!(Group41Var2, u8, Group41Var2 { value: kani::any(), status: CommandStatus::from(kani::any()) }, CommandHeader::G41V2U8, HeaderDetails::OneByteCountAndPrefix, PrefixedVariation::Group41Var2, 4)
}

// @harness c16_echo_g41v1_u16
// @props C16
// @tier thorough
// @timeout 3600
// @mem 6
// @units CommandHeader::{compare, compare_items}, Group41Var1::{read,write}
// @bounds analog output 32-bit, 16-bit indices, same mutations
#[kani::proof]
#[kani::unwind(24)]
fn c16_echo_g41v1_u16() {
    echo_case!(Group41Var1, u16, Group41Var1 { value: kani::any(), status: CommandStatus::from(kani::any()) }, CommandHeader::G41V1U16, HeaderDetails::TwoByteCountAndPrefix, PrefixedVariation::Group41Var1, 7)
}

// @harness c16_echo_g41v3_u8
// @props C16
// @tier thorough
// @timeout 3600
// @mem 6
// @units CommandHeader::{compare, compare_items}, Group41Var3::{read,write}
// @bounds analog output single-precision, 8-bit indices, any bit pattern except NaN and the two zeros (the library compares VALUES with IEEE equality, not octets: NaN never equals itself - a faithful NaN echo is refused - and +0.0 equals -0.0 - an echo that differs only in the sign of a zero is accepted; both are outside what this harness asserts, see DESIGN 13)
#[kani::proof]
#[kani::unwind(20)]
fn c16_echo_g41v3_u8() {
    let mk = || {
        let v: f32 = kani::any();
        kani::assume(!v.is_nan() && v != 0.0);
        Group41Var3 { value: v, status: CommandStatus::from(kani::any()) }
    };
    echo_case!(Group41Var3, u8, mk(), CommandHeader::G41V3U8, HeaderDetails::OneByteCountAndPrefix, PrefixedVariation::Group41Var3, 6)
}

// @harness c16_header_type_mismatch
// @props C16
// @tier quick
// @timeout 900
// @mem 4
// @units CommandHeader::compare
// @bounds a CROB request answered with an analog-output header, with the other index width, or with a non-command header: HeaderTypeMismatch, never success
#[kani::proof]
#[kani::unwind(16)]
fn c16_header_type_mismatch() {
    let sent = CommandHeader::G12V1U8(vec![(any_crob(), kani::any())]);
    let wire: [u8; 13] = kani::any();
    let which: u8 = kani::any();
    kani::assume(which < 3);
    let r = match which {
        0 => {
            let mut rc = ReadCursor::new(&wire);
            let seq: CountSequence<Prefix<u16, Group12Var1>> = CountSequence::parse(1, &mut rc).unwrap();
            sent.compare(HeaderDetails::TwoByteCountAndPrefix(1, PrefixedVariation::Group12Var1(seq)))
        }
        1 => {
            let mut rc = ReadCursor::new(&wire);
            let seq: CountSequence<Prefix<u8, Group41Var2>> = CountSequence::parse(1, &mut rc).unwrap();
            sent.compare(HeaderDetails::OneByteCountAndPrefix(1, PrefixedVariation::Group41Var2(seq)))
        }
        _ => sent.compare(HeaderDetails::AllObjects(crate::app::gen::all::AllObjectsVariation::Group60Var1)),
    };
    assert!(matches!(r, Err(CommandResponseError::HeaderTypeMismatch)));
    kani::cover!(which == 2);
}

// ---- request construction: nothing the user added may be lost on the way to the wire ----

/// (kind 0..=9 in the order of the enum, number of objects, index of the first object)
fn shape(h: &CommandHeader) -> (u8, usize, u16) {
    match h {
        CommandHeader::G12V1U8(v) => (0, v.len(), v[0].1 as u16),
        CommandHeader::G41V1U8(v) => (1, v.len(), v[0].1 as u16),
        CommandHeader::G41V2U8(v) => (2, v.len(), v[0].1 as u16),
        CommandHeader::G41V3U8(v) => (3, v.len(), v[0].1 as u16),
        CommandHeader::G41V4U8(v) => (4, v.len(), v[0].1 as u16),
        CommandHeader::G12V1U16(v) => (5, v.len(), v[0].1),
        CommandHeader::G41V1U16(v) => (6, v.len(), v[0].1),
        CommandHeader::G41V2U16(v) => (7, v.len(), v[0].1),
        CommandHeader::G41V3U16(v) => (8, v.len(), v[0].1),
        CommandHeader::G41V4U16(v) => (9, v.len(), v[0].1),
    }
}

fn some_crob() -> Group12Var1 {
    Group12Var1 { code: crate::app::control::ControlCode::from(0x03), count: kani::any(), on_time: 100, off_time: 200, status: CommandStatus::Success }
}

fn add_kind(b: &mut CommandBuilder, kind: u8, index: u8) {
    let st = CommandStatus::Success;
    match kind {
        0 => b.add_u8(some_crob(), index),
        1 => b.add_u8(Group41Var1 { value: kani::any(), status: st }, index),
        2 => b.add_u8(Group41Var2 { value: kani::any(), status: st }, index),
        3 => b.add_u8(Group41Var3 { value: 1.5, status: st }, index),
        4 => b.add_u8(Group41Var4 { value: 2.5, status: st }, index),
        5 => b.add_u16(some_crob(), index as u16),
        6 => b.add_u16(Group41Var1 { value: kani::any(), status: st }, index as u16),
        7 => b.add_u16(Group41Var2 { value: kani::any(), status: st }, index as u16),
        8 => b.add_u16(Group41Var3 { value: 1.5, status: st }, index as u16),
        _ => b.add_u16(Group41Var4 { value: 2.5, status: st }, index as u16),
    }
}

fn builder_pair(first: u8) {
    let second: u8 = kani::any();
    kani::assume(second < 10);
    let i1: u8 = kani::any();
    let i2: u8 = kani::any();
    let mut b = CommandBuilder::new();
    add_kind(&mut b, first, i1);
    add_kind(&mut b, second, i2);
    let hs = b.build();
    if first == second {
        // same type and index width: one header, both objects, in the order given
        assert!(hs.headers.len() == 1);
        let (k, n, ix) = shape(&hs.headers[0]);
        assert!(k == first && n == 2 && ix == i1 as u16);
    } else {
        // a different type or index width starts a new header; the pending one is kept
        assert!(hs.headers.len() == 2);
        let (k0, n0, ix0) = shape(&hs.headers[0]);
        let (k1, n1, ix1) = shape(&hs.headers[1]);
        assert!(k0 == first && n0 == 1 && ix0 == i1 as u16);
        assert!(k1 == second && n1 == 1 && ix1 == i2 as u16);
    }
    kani::cover!(first == second);
    kani::cover!(first != second);
    std::mem::forget(hs);
}

macro_rules! builder_case {
    ($name:ident, $k:expr) => {
        #[kani::proof]
        #[kani::unwind(4)]
        fn $name() {
            builder_pair($k)
        }
    };
}

// @harness c16_builder_keeps_objects_after_g12v1_u8
// @props C16
// @tier quick
// @timeout 900
// @mem 8
// @units CommandBuilder::{new, add_g12v1_u8 .. add_g41v4_u16 (all ten), finish_header, build}, CommandSupport::{add_u8, add_u16}
// @bounds a CROB with an 8-bit index followed by a command of ANY of the ten (type x index width) kinds, arbitrary indices and values: the built request holds every object that was added, in order - one header when the kinds agree, otherwise the pending header is kept and a new one started (what is not in the request cannot be missed in the echo, so "success" would be reported for an operation that never went out)
// @outside three or more commands; finish_header between them
builder_case!(c16_builder_keeps_objects_after_g12v1_u8, 0);

// @harness c16_builder_keeps_objects_after_g41v2_u16
// @props C16
// @tier quick
// @timeout 900
// @mem 8
// @units as above
// @bounds a 16-bit analog output with a 16-bit index first, then any of the ten kinds
builder_case!(c16_builder_keeps_objects_after_g41v2_u16, 7);

// @harness c16_builder_keeps_objects_after_g41v3_u8
// @props C16
// @tier quick
// @timeout 900
// @mem 8
// @units as above
// @bounds a single-precision analog output with an 8-bit index first, then any of the ten kinds
builder_case!(c16_builder_keeps_objects_after_g41v3_u8, 3);

// @harness c16_builder_keeps_objects_after_g41v1_u8
// @props C16
// @tier thorough
// @timeout 900
// @mem 8
// @units as c16_builder_keeps_objects_after_g12v1_u8
// @bounds first command of kind g41v1_u8, then any of the ten kinds
builder_case!(c16_builder_keeps_objects_after_g41v1_u8, 1);

// @harness c16_builder_keeps_objects_after_g41v2_u8
// @props C16
// @tier thorough
// @timeout 900
// @mem 8
// @units as c16_builder_keeps_objects_after_g12v1_u8
// @bounds first command of kind g41v2_u8, then any of the ten kinds
builder_case!(c16_builder_keeps_objects_after_g41v2_u8, 2);

// @harness c16_builder_keeps_objects_after_g41v4_u8
// @props C16
// @tier thorough
// @timeout 900
// @mem 8
// @units as c16_builder_keeps_objects_after_g12v1_u8
// @bounds first command of kind g41v4_u8, then any of the ten kinds
builder_case!(c16_builder_keeps_objects_after_g41v4_u8, 4);

// @harness c16_builder_keeps_objects_after_g12v1_u16
// @props C16
// @tier thorough
// @timeout 900
// @mem 8
// @units as c16_builder_keeps_objects_after_g12v1_u8
// @bounds first command of kind g12v1_u16, then any of the ten kinds
builder_case!(c16_builder_keeps_objects_after_g12v1_u16, 5);

// @harness c16_builder_keeps_objects_after_g41v1_u16
// @props C16
// @tier thorough
// @timeout 900
// @mem 8
// @units as c16_builder_keeps_objects_after_g12v1_u8
// @bounds first command of kind g41v1_u16, then any of the ten kinds
builder_case!(c16_builder_keeps_objects_after_g41v1_u16, 6);

// @harness c16_builder_keeps_objects_after_g41v3_u16
// @props C16
// @tier thorough
// @timeout 900
// @mem 8
// @units as c16_builder_keeps_objects_after_g12v1_u8
// @bounds first command of kind g41v3_u16, then any of the ten kinds
builder_case!(c16_builder_keeps_objects_after_g41v3_u16, 8);

// @harness c16_builder_keeps_objects_after_g41v4_u16
// @props C16
// @tier thorough
// @timeout 900
// @mem 8
// @units as c16_builder_keeps_objects_after_g12v1_u8
// @bounds first command of kind g41v4_u16, then any of the ten kinds
builder_case!(c16_builder_keeps_objects_after_g41v4_u16, 9);
