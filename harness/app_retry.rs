// Harnesses + accessors for dnp3/src/app/retry.rs — C17 (automatic-task back-off)
use super::*;

pub(crate) fn last_of(b: &ExponentialBackOff) -> Option<Duration> {
    b.last
}

pub(crate) fn any_duration_ms(max_ms: u32) -> Duration {
    let ms: u32 = kani::any();
    kani::assume(ms <= max_ms);
    let s: u32 = kani::any();
    let r: u32 = kani::any();
    kani::assume(r < 1000 && s <= max_ms / 1000);
    kani::assume(s * 1000 + r == ms);
    Duration::new(s as u64, r * 1_000_000)
}

pub(crate) fn any_strategy() -> RetryStrategy {
    let min = any_duration_ms(3_600_000);
    let max = any_duration_ms(3_600_000);
    kani::assume(min <= max);
    RetryStrategy::new(min, max)
}

// @harness c17_backoff_step
// @props C17
// @tier quick
// @timeout 900
// @units ExponentialBackOff::{new, on_failure, on_success}
// @bounds min <= max, both 0..=1 h in ms; ONE failure from ANY reachable back-off state (no failure yet, or last delay any value in [min,max]): first delay == min; otherwise delay == min(2*last, max); always min <= delay <= max.  Inductive: covers failure runs of any length.  on_success restarts at min.
// @assumes min_delay <= max_delay (RetryStrategy precondition)
#[kani::proof]
#[kani::unwind(4)]
fn c17_backoff_step() {
    let st = any_strategy();
    let mut b = ExponentialBackOff::new(st);
    let fresh: bool = kani::any();
    let last = any_duration_ms(3_600_000);
    if !fresh {
        kani::assume(last >= st.min_delay && last <= st.max_delay);
        b.last = Some(last);
    }
    let d = b.on_failure();
    if fresh {
        assert!(d == st.min_delay);
    } else {
        let doubled = last + last;
        assert!(d == if doubled > st.max_delay { st.max_delay } else { doubled });
    }
    assert!(d >= st.min_delay && d <= st.max_delay);
    assert!(b.last == Some(d));
    b.on_success();
    assert!(b.on_failure() == st.min_delay);
    kani::cover!(!fresh && d == st.max_delay && last < st.max_delay);
    kani::cover!(!fresh && d < st.max_delay);
}

