// hook module for ffi/dnp3-ffi (C20): generated enum-conversion harnesses
use super::*;
include!(concat!(env!("VERIF_GEN_DIR"), "/ffi_handler_gen.rs"));

// ---- native -> binding direction (what the master hands to a ReadHandler written in C/.NET/Java) ----

fn any_native_time() -> (u8, u64, Option<Time>) {
    let k: u8 = kani::any();
    kani::assume(k < 3);
    let v: u64 = kani::any();
    kani::assume(v <= 0xFFFF_FFFF_FFFF);
    let t = match k {
        0 => Some(Time::Synchronized(Timestamp::new(v))),
        1 => Some(Time::Unsynchronized(Timestamp::new(v))),
        _ => None,
    };
    (k, v, t)
}

fn check_ffi_time(k: u8, v: u64, got: &ffi::Timestamp) {
    match (k, got.quality()) {
        (0, ffi::TimeQuality::SynchronizedTime) => assert!(got.value() == v),
        (1, ffi::TimeQuality::UnsynchronizedTime) => assert!(got.value() == v),
        (2, ffi::TimeQuality::InvalidTime) => assert!(got.value() == 0),
        _ => panic!("time quality not preserved towards the binding"),
    }
}

// @harness c20_native_time_to_ffi
// @props C20
// @tier quick
// @crate dnp3-ffi
// @timeout 300
// @units impl From<Option<Time>> for ffi::Timestamp, impl From<Flags> for ffi::Flags
// @bounds every 48-bit timestamp with each of the three qualities (synchronized, unsynchronized, no time), every flag octet: value and quality both arrive unchanged (no time -> value 0 / InvalidTime)
#[kani::proof]
#[kani::unwind(2)]
fn c20_native_time_to_ffi() {
    let (k, v, t) = any_native_time();
    let x: ffi::Timestamp = t.into();
    check_ffi_time(k, v, &x);
    let f: u8 = kani::any();
    let y: ffi::Flags = Flags::new(f).into();
    assert!(y.value == f);
    kani::cover!(k == 1 && v != 0);
}

// @harness c20_native_measurements_to_ffi
// @props C20
// @tier quick
// @crate dnp3-ffi
// @timeout 300
// @units ffi::BinaryInput::new, ffi::DoubleBitBinaryInput::new, ffi::Counter::new, ffi::AnalogInput::new (native measurement -> binding struct)
// @bounds every index, value (bool / 4 double-bit states / u32 / f64 bit pattern), flag octet, 48-bit time and quality: field-for-field
#[kani::proof]
#[kani::unwind(2)]
fn c20_native_measurements_to_ffi() {
    let (k, v, t) = any_native_time();
    let idx: u16 = kani::any();
    let f: u8 = kani::any();
    let which: u8 = kani::any();
    kani::assume(which < 4);
    match which {
        0 => {
            let b: bool = kani::any();
            let x = ffi::BinaryInput::new(idx, BinaryInput { value: b, flags: Flags::new(f), time: t });
            assert!(x.index == idx && x.value == b && x.flags.value == f);
            check_ffi_time(k, v, &x.time);
        }
        1 => {
            let d: u8 = kani::any();
            kani::assume(d < 4);
            let (n, e) = match d {
                0 => (DoubleBit::Intermediate, ffi::DoubleBit::Intermediate),
                1 => (DoubleBit::DeterminedOff, ffi::DoubleBit::DeterminedOff),
                2 => (DoubleBit::DeterminedOn, ffi::DoubleBit::DeterminedOn),
                _ => (DoubleBit::Indeterminate, ffi::DoubleBit::Indeterminate),
            };
            let x = ffi::DoubleBitBinaryInput::new(idx, DoubleBitBinaryInput { value: n, flags: Flags::new(f), time: t });
            assert!(x.index == idx && x.value() == e && x.flags.value == f);
            check_ffi_time(k, v, &x.time);
        }
        2 => {
            let c: u32 = kani::any();
            let x = ffi::Counter::new(idx, Counter { value: c, flags: Flags::new(f), time: t });
            assert!(x.index == idx && x.value == c && x.flags.value == f);
            check_ffi_time(k, v, &x.time);
        }
        _ => {
            let a: f64 = kani::any();
            let x = ffi::AnalogInput::new(idx, AnalogInput { value: a, flags: Flags::new(f), time: t });
            assert!(x.index == idx && x.value.to_bits() == a.to_bits() && x.flags.value == f);
            check_ffi_time(k, v, &x.time);
        }
    }
    kani::cover!(which == 3 && k == 1);
}

// @harness c20_native_iin_to_ffi
// @props C20
// @tier quick
// @crate dnp3-ffi
// @timeout 300
// @units impl From<Iin1> for ffi::Iin1, impl From<Iin2> for ffi::Iin2
// @bounds all 65536 IIN values: each of the 16 named bits of the binding struct equals the bit of the octet IEEE 1815 assigns to it
#[kani::proof]
#[kani::unwind(2)]
fn c20_native_iin_to_ffi() {
    let a: u8 = kani::any();
    let b: u8 = kani::any();
    let x: ffi::Iin1 = Iin1::new(a).into();
    let y: ffi::Iin2 = Iin2::new(b).into();
    let bit = |v: u8, i: u8| v & (1 << i) != 0;
    assert!(x.broadcast == bit(a, 0) && x.class_1_events == bit(a, 1) && x.class_2_events == bit(a, 2) && x.class_3_events == bit(a, 3));
    assert!(x.need_time == bit(a, 4) && x.local_control == bit(a, 5) && x.device_trouble == bit(a, 6) && x.device_restart == bit(a, 7));
    assert!(y.no_func_code_support == bit(b, 0) && y.object_unknown == bit(b, 1) && y.parameter_error == bit(b, 2) && y.event_buffer_overflow == bit(b, 3));
    assert!(y.already_executing == bit(b, 4) && y.config_corrupt == bit(b, 5) && y.reserved_2 == bit(b, 6) && y.reserved_1 == bit(b, 7));
    kani::cover!(a == 0x80 && b == 0x08);
}
