// Harnesses for dnp3/src/master/poll.rs — C19 (polls on period, demand, sleep until the earliest deadline)
use super::*;
use crate::app::verif_retry::any_duration_ms;
use crate::master::request::Classes;
use crate::verif_common::*;

fn req() -> ReadRequest {
    ReadRequest::class_scan(Classes::all())
}

// @harness c19_poll_period_and_demand
// @props C19
// @tier quick
// @timeout 900
// @units Poll::{new, is_ready, reset_next, demand, next}
// @bounds one poll, period 1 ms..1 h, any creation instant, any completion instant, any query instant within 2^20 s: after completion the poll is not ready before completion + period and is ready from then on (never earlier than one period after the previous run completed); demand makes it ready at once
// @stubs tokio::time::Instant::now -> harness clock
#[kani::proof]
#[kani::unwind(4)]
#[kani::stub(tokio::time::Instant::now, crate::verif_common::now_fixed)]
fn c19_poll_period_and_demand() {
    let period = any_duration_ms(3_600_000);
    kani::assume(period > Duration::from_millis(0));
    let t0 = set_now_any();
    let mut p = Poll::new(7, req(), period);
    assert!(p.next() == Some(t0 + period));
    assert!(!p.is_ready(t0));
    // the poll ran and completed at t1
    let t1 = set_now_any();
    p.reset_next();
    let q = any_instant();
    assert!(p.is_ready(q) == (q >= t1 + period));
    assert!(p.next() == Some(t1 + period));
    // demanded at t2
    let t2 = set_now_any();
    p.demand();
    assert!(p.is_ready(t2));
    assert!(p.is_ready(q) == (q >= t2));
    kani::cover!(q >= t1 + period);
    kani::cover!(q < t1 + period && q > t1);
}

// @harness c19_pollmap_next
// @props C19
// @tier quick
// @timeout 1800
// @mem 6
// @units PollMap::{new, add, next, complete, demand, remove}, Smallest::observe
// @bounds two polls with arbitrary periods (1 ms..1 h) added at arbitrary instants, queried at an arbitrary instant: Now <=> one of them is due (and the one returned is due); otherwise NotBefore(t) with t = the EARLIEST deadline and t > now (the caller's sleep cannot return immediately: no spinning); after removal of both: None
// @stubs tokio::time::Instant::now -> harness clock
#[kani::proof]
#[kani::unwind(6)]
#[kani::stub(tokio::time::Instant::now, crate::verif_common::now_fixed)]
fn c19_pollmap_next() {
    let mut m = PollMap::new();
    assert!(matches!(m.next(any_instant()), Next::None));
    let p1 = any_duration_ms(3_600_000);
    let p2 = any_duration_ms(3_600_000);
    kani::assume(p1 > Duration::from_millis(0) && p2 > Duration::from_millis(0));
    let t1 = set_now_any();
    let id1 = m.add(req(), p1);
    let t2 = set_now_any();
    let id2 = m.add(req(), p2);
    assert!(id1 != id2);
    let d1 = t1 + p1;
    let d2 = t2 + p2;
    let now = any_instant();
    match m.next(now) {
        Next::Now(p) => {
            assert!(d1 <= now || d2 <= now);
            assert!(if p.id == id1 { d1 <= now } else { p.id == id2 && d2 <= now });
        }
        Next::NotBefore(t) => {
            assert!(d1 > now && d2 > now);
            assert!(t == if d1 < d2 { d1 } else { d2 });
            assert!(t > now);
        }
        Next::None => panic!("two polls are registered"),
    }
    // completing a poll pushes its deadline one period past the completion instant
    let t3 = set_now_any();
    m.complete(id1);
    let now2 = any_instant();
    let due1 = now2 >= t3 + p1;
    let due2 = now2 >= d2;
    assert!(matches!(m.next(now2), Next::Now(_)) == (due1 || due2));
    assert!(m.remove(id1) && m.remove(id2) && !m.remove(id1));
    assert!(matches!(m.next(now2), Next::None));
    kani::cover!(d1 > now && d2 > now && d2 < d1);
    kani::cover!(d1 <= now);
    std::mem::forget(m);
}
