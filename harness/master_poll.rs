// Harnesses for dnp3/src/master/poll.rs — C19 (polls on period, demand, sleep until the earliest deadline)
use super::*;
use crate::app::verif_retry::any_duration_ms;
use crate::master::request::Classes;
use crate::verif_common::*;

fn req() -> ReadRequest {
    ReadRequest::class_scan(Classes::all())
}

// @harness c19_poll_period_and_demand
// @props C19
// @tier quick
// @timeout 900
// @units Poll::{new, is_ready, reset_next, demand, next}
// @bounds one poll, period 1 ms..1 h, any creation instant, any completion instant, any query instant within 2^20 s: after completion the poll is not ready before completion + period and is ready from then on (never earlier than one period after the previous run completed); demand makes it ready at once
// @stubs tokio::time::Instant::now -> harness clock
#[kani::proof]
#[kani::unwind(4)]
#[kani::stub(tokio::time::Instant::now, crate::verif_common::now_fixed)]
fn c19_poll_period_and_demand() {
    let period = any_duration_ms(3_600_000);
    kani::assume(period > Duration::from_millis(0));
    let t0 = set_now_any();
    let mut p = Poll::new(7, req(), period);
    assert!(p.next() == Some(t0 + period));
    assert!(!p.is_ready(t0));
    // the poll ran and completed at t1
    let t1 = set_now_any();
    p.reset_next();
    let q = any_instant();
    assert!(p.is_ready(q) == (q >= t1 + period));
    assert!(p.next() == Some(t1 + period));
    // demanded at t2
    let t2 = set_now_any();
    p.demand();
    assert!(p.is_ready(t2));
    assert!(p.is_ready(q) == (q >= t2));
    kani::cover!(q >= t1 + period);
    kani::cover!(q < t1 + period && q > t1);
}

// @harness c19_pollmap_next
// @props C19
// @tier thorough
// @class attempt
// @timeout 1200
// @mem 14
// @units PollMap::{new, add, next, remove}, Poll::{is_ready, next}, Smallest::observe
// @bounds two registered polls whose deadlines are ARBITRARY instants (or absent), queried at an arbitrary instant: Now <=> one of them is due, and the poll returned is a due one; otherwise NotBefore(t) with t = the EARLIEST deadline and t > now (the caller's sleep cannot return immediately: no spinning); no deadline at all / no polls: None.  (The map is built with fixed periods so that its tree shape is concrete; the deadlines are then overwritten with symbolic values.)
// @stubs tokio::time::Instant::now -> harness clock
#[kani::proof]
#[kani::unwind(6)]
#[kani::stub(tokio::time::Instant::now, crate::verif_common::now_fixed)]
fn c19_pollmap_next() {
    set_now(1000, 0);
    let mut m = PollMap::new();
    let id1 = m.add(req(), Duration::from_secs(5));
    let id2 = m.add(req(), Duration::from_secs(7));
    assert!(id1 != id2);
    let d1 = if kani::any() { Some(any_instant()) } else { None };
    let d2 = if kani::any() { Some(any_instant()) } else { None };
    m.polls.get_mut(&id1).unwrap().next = d1;
    m.polls.get_mut(&id2).unwrap().next = d2;
    let now = any_instant();
    let due1 = matches!(d1, Some(d) if d <= now);
    let due2 = matches!(d2, Some(d) if d <= now);
    match m.next(now) {
        Next::Now(p) => {
            assert!(due1 || due2);
            assert!(if p.id == id1 { due1 } else { p.id == id2 && due2 });
            std::mem::forget(p);
        }
        Next::NotBefore(t) => {
            assert!(!due1 && !due2);
            let earliest = match (d1, d2) {
                (Some(a), Some(b)) => if a < b { a } else { b },
                (Some(a), None) => a,
                (None, Some(b)) => b,
                (None, None) => panic!("no deadline, nothing to wait for"),
            };
            assert!(t == earliest && t > now);
        }
        Next::None => assert!(d1.is_none() && d2.is_none()),
    }
    kani::cover!(!due1 && !due2 && d1.is_some() && d2.is_some());
    kani::cover!(due2 && !due1);
    std::mem::forget(m);
}

// @harness c19_pollmap_complete_and_remove
// @props C19
// @tier thorough
// @class attempt
// @timeout 1200
// @mem 14
// @units PollMap::{add, complete, demand, remove, next}, Poll::reset_next
// @bounds one registered poll with an arbitrary period (1 ms..1 h): completing it at an arbitrary instant moves its deadline to completion + period; demanding it makes it due at once; removing it leaves nothing to schedule
// @stubs tokio::time::Instant::now -> harness clock
#[kani::proof]
#[kani::unwind(6)]
#[kani::stub(tokio::time::Instant::now, crate::verif_common::now_fixed)]
fn c19_pollmap_complete_and_remove() {
    set_now(1000, 0);
    let mut m = PollMap::new();
    assert!(matches!(m.next(any_instant()), Next::None));
    let period = any_duration_ms(3_600_000);
    kani::assume(period > Duration::from_millis(0));
    let id = m.add(req(), period);
    let t = set_now_any();
    m.complete(id);
    let q = any_instant();
    match m.next(q) {
        Next::Now(p) => {
            assert!(q >= t + period);
            std::mem::forget(p);
        }
        Next::NotBefore(x) => assert!(q < t + period && x == t + period),
        Next::None => panic!("a poll is registered"),
    }
    let t2 = set_now_any();
    assert!(m.demand(id) && !m.demand(id + 1));
    assert!(matches!(m.next(t2), Next::Now(_)));
    assert!(m.remove(id) && !m.remove(id));
    assert!(matches!(m.next(t2), Next::None));
    kani::cover!(q >= t + period);
    kani::cover!(q < t + period);
    std::mem::forget(m);
}

// @harness c19_smallest_deadline
// @props C19
// @tier quick
// @timeout 300
// @units util::Smallest::{new, observe, value} (the reduction PollMap::next uses to pick the deadline to sleep until)
// @bounds three arbitrary instants observed in any order: the result is their minimum (so the master sleeps until the EARLIEST deadline, never a later one); nothing observed => none
#[kani::proof]
#[kani::unwind(4)]
fn c19_smallest_deadline() {
    let mut s = Smallest::<Instant>::new();
    assert!(s.value().is_none());
    let a = any_instant();
    let b = any_instant();
    let c = any_instant();
    s.observe(a);
    assert!(s.value() == Some(a));
    s.observe(b);
    s.observe(c);
    let m = if a <= b && a <= c { a } else if b <= c { b } else { c };
    assert!(s.value() == Some(m));
    kani::cover!(c < a && c < b);
    kani::cover!(a < b && a < c);
}
