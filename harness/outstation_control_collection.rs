// Harnesses for dnp3/src/outstation/control/collection.rs — C04 (a SELECT counts as successful only if EVERY object
// succeeded; status echo), C12/C01 (echo fits or errors, never panics)
use super::*;
use crate::app::parse::traits::FixedSize;
use crate::outstation::database::{ClassZeroConfig, EventBufferConfig};
use crate::outstation::traits::ControlSupport;
use scursor::ReadCursor;

static mut STATUS: [u8; 2] = [0, 0];
static mut CALLS: u8 = 0;
static mut OPERATES: u8 = 0;

struct H;
macro_rules! support {
    ($t:ty) => {
        impl ControlSupport<$t> for H {
            fn select(&mut self, _c: $t, _i: u16, _d: &mut DatabaseHandle) -> CommandStatus {
                let k = unsafe { CALLS } as usize;
                unsafe { CALLS += 1 };
                CommandStatus::from(unsafe { STATUS[if k < 2 { k } else { 1 }] })
            }
            fn operate(&mut self, _c: $t, _i: u16, _o: OperateType, _d: &mut DatabaseHandle) -> CommandStatus {
                let k = unsafe { CALLS } as usize;
                unsafe { CALLS += 1 };
                unsafe { OPERATES += 1 };
                CommandStatus::from(unsafe { STATUS[if k < 2 { k } else { 1 }] })
            }
        }
    };
}
support!(Group12Var1);
support!(Group41Var1);
support!(Group41Var2);
support!(Group41Var3);
support!(Group41Var4);
impl ControlHandler for H {}

// @harness c04_select_operate_header_status
// @props C04,C12,C01
// @tier quick
// @timeout 1800
// @mem 6
// @units select_header_with_response, operate_header_with_response, PrefixWriter::{write,write_inner}, CommandStatus::first_error, ControlTransaction::{start, select, operate}, Group41Var2::{read,write,with_status}
// @bounds one header of two analog-output commands (values, indices arbitrary), handler verdicts arbitrary for each object, max_controls_per_request none or 0..=3, objects already counted in this request 0..=2, SELECT or OPERATE, transmit space 0..=16 bytes: overall status = FIRST non-success among the per-object statuses INCLUDING the library's own TOO_MANY_OPS (so a SELECT is recorded only if every object succeeded); objects over the limit never reach the handler; the echo lists both objects with their own status; too little space => error, never a panic
#[kani::proof]
#[kani::unwind(8)]
fn c04_select_operate_header_status() {
    let mut db = DatabaseHandle::new(None, ClassZeroConfig::default(), EventBufferConfig::no_events());
    let mut h = H;
    let mut tx = ControlTransaction { started: false, handler: &mut h };
    let items: [u8; 8] = kani::any(); // two (index u8, value i16, status u8) entries as received
    let mut rc = ReadCursor::new(&items);
    let seq: CountSequence<Prefix<u8, Group41Var2>> = CountSequence::parse(2, &mut rc).unwrap();
    let s: [u8; 2] = kani::any();
    unsafe {
        STATUS = s;
        CALLS = 0;
        OPERATES = 0;
    }
    let max: Option<u16> = if kani::any() { None } else { let m: u16 = kani::any(); kani::assume(m <= 3); Some(m) };
    let n0: u16 = kani::any();
    kani::assume(n0 <= 2);
    let mut num = n0;
    let space: usize = kani::any();
    kani::assume(space <= 16);
    let mut out = [0u8; 16];
    let select: bool = kani::any();
    let r = {
        let mut cursor = WriteCursor::new(&mut out[..space]);
        if select {
            select_header_with_response(&mut cursor, &seq, &mut db, &mut tx, max, &mut num)
        } else {
            operate_header_with_response(&mut cursor, &seq, &mut db, OperateType::SelectBeforeOperate, &mut tx, max, &mut num)
        }
    };
    // reference
    let allowed = |k: u16| match max {
        None => true,
        Some(m) => n0 + k < m,
    };
    let st0 = if allowed(0) { CommandStatus::from(s[0]) } else { CommandStatus::TooManyOps };
    // the handler is consulted in order: the second object gets the handler's NEXT verdict
    let second_verdict = if allowed(0) { s[1] } else { s[0] };
    let st1 = if allowed(1) { CommandStatus::from(second_verdict) } else { CommandStatus::TooManyOps };
    match r {
        Ok(status) => {
            assert!(space >= 11); // g41v2 0x17 count + 2 x (index + value + status)
            let expect = if st0 != CommandStatus::Success { st0 } else { st1 };
            assert!(status == expect);
            assert!((status == CommandStatus::Success) == (st0 == CommandStatus::Success && st1 == CommandStatus::Success));
            assert!(num == n0 + 2);
            assert!(unsafe { CALLS } == allowed(0) as u8 + allowed(1) as u8);
            assert!(select || unsafe { OPERATES } == unsafe { CALLS });
            assert!(!select || unsafe { OPERATES } == 0);
            // echo: 29 02 17 02 | idx v v st | idx v v st
            assert!(out[0] == 41 && out[1] == 2 && out[2] == 0x17 && out[3] == 2);
            assert!(out[4] == items[0] && out[5] == items[1] && out[6] == items[2] && out[7] == st0.as_u8());
            assert!(out[8] == items[4] && out[9] == items[5] && out[10] == items[6] && out[11 - 0] == st1.as_u8() || space < 12);
        }
        Err(_) => assert!(space < 12),
    }
    kani::cover!(r.is_ok() && st0 == CommandStatus::Success && st1 == CommandStatus::TooManyOps);
    kani::cover!(matches!(r, Ok(CommandStatus::Success)));
    kani::cover!(r.is_err());
    std::mem::forget(db);
}

/// PrefixWriter into a buffer of symbolic capacity: whatever does not fit is left out COMPLETELY - the count field
/// always equals the number of objects that are really there (the session sends `cursor.written()` even after a
/// write error, so a count that ran ahead would put an unparsable response on the wire)
fn prefix_writer_case<I: crate::app::parse::traits::Index>(idx_size: usize, qualifier: u8, mk: fn(u8) -> I) {
    use crate::app::variations::Group41Var2;
    let mut buf = [0xEEu8; 24];
    let cap: usize = kani::any();
    kani::assume(cap <= 24);
    let v: [i16; 3] = kani::any();
    let ix: [u8; 3] = kani::any();
    let mut w = crate::outstation::control::prefix::PrefixWriter::<I, Group41Var2>::new();
    let mut n = 0usize;
    let len = {
        let mut cursor = scursor::WriteCursor::new(&mut buf[..cap]);
        let mut i = 0;
        while i < 3 {
            let index = mk(ix[i]);
            if w.write(&mut cursor, Group41Var2 { value: v[i], status: CommandStatus::Success }, index).is_ok() {
                // objects are refused only for lack of space, and then all later ones too (same size)
                assert!(n == i);
                n += 1;
            }
            i += 1;
        }
        cursor.written().len()
    };
    let hdr = 3 + idx_size;
    let per = idx_size + 3;
    // the first object needs the whole header + object; nothing partial is ever left behind
    let fit = if cap < hdr + per { 0 } else { 1 + (cap - hdr - per) / per };
    let expect_n = if fit > 3 { 3 } else { fit };
    assert!(n == expect_n);
    if n == 0 {
        assert!(len == 0);
    } else {
        assert!(len == hdr + n * per);
        assert!(buf[0] == 41 && buf[1] == 2 && buf[2] == qualifier);
        // the count field says exactly how many objects follow
        assert!(buf[3] as usize == n);
        if idx_size == 2 {
            assert!(buf[4] == 0);
        }
        let j: usize = kani::any();
        kani::assume(j < n);
        let at = hdr + j * per;
        assert!(buf[at] == ix[j]);
        if idx_size == 2 {
            assert!(buf[at + 1] == 0);
        }
        let vb = v[j].to_le_bytes();
        assert!(buf[at + idx_size] == vb[0] && buf[at + idx_size + 1] == vb[1] && buf[at + idx_size + 2] == 0);
    }
    kani::cover!(n == 2 && len < cap);
    kani::cover!(n == 3);
}

// @harness c09_prefix_writer_truncation_u8
// @props C09,C04
// @tier quick
// @timeout 600
// @units PrefixWriter<u8, Group41Var2>::{write, write_inner}, WriteCursor::{transaction, at_pos}
// @bounds three g41v2 objects with arbitrary values and 8-bit indices echoed into a response buffer of ANY remaining capacity 0..=24: the bytes left in the buffer are a complete count-and-prefix header (41 02 17 n) followed by exactly n whole objects, n = what fits, nothing when even one does not
#[kani::proof]
#[kani::unwind(5)]
fn c09_prefix_writer_truncation_u8() {
    prefix_writer_case::<u8>(1, 0x17, |x| x)
}

// @harness c09_prefix_writer_truncation_u16
// @props C09,C04
// @tier quick
// @timeout 600
// @units PrefixWriter<u16, Group41Var2>::{write, write_inner}
// @bounds as above with 16-bit count and indices (41 02 28 n 00 ...)
#[kani::proof]
#[kani::unwind(5)]
fn c09_prefix_writer_truncation_u16() {
    prefix_writer_case::<u16>(2, 0x28, |x| x as u16)
}
