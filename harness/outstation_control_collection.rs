// Harnesses for dnp3/src/outstation/control/collection.rs — C04 (a SELECT counts as successful only if EVERY object
// succeeded; status echo), C12/C01 (echo fits or errors, never panics)
use super::*;
use crate::app::parse::traits::FixedSize;
use crate::outstation::database::{ClassZeroConfig, EventBufferConfig};
use crate::outstation::traits::ControlSupport;
use scursor::ReadCursor;

static mut STATUS: [u8; 2] = [0, 0];
static mut CALLS: u8 = 0;
static mut OPERATES: u8 = 0;

struct H;
macro_rules! support {
    ($t:ty) => {
        impl ControlSupport<$t> for H {
            fn select(&mut self, _c: $t, _i: u16, _d: &mut DatabaseHandle) -> CommandStatus {
                let k = unsafe { CALLS } as usize;
                unsafe { CALLS += 1 };
                CommandStatus::from(unsafe { STATUS[if k < 2 { k } else { 1 }] })
            }
            fn operate(&mut self, _c: $t, _i: u16, _o: OperateType, _d: &mut DatabaseHandle) -> CommandStatus {
                let k = unsafe { CALLS } as usize;
                unsafe { CALLS += 1 };
                unsafe { OPERATES += 1 };
                CommandStatus::from(unsafe { STATUS[if k < 2 { k } else { 1 }] })
            }
        }
    };
}
support!(Group12Var1);
support!(Group41Var1);
support!(Group41Var2);
support!(Group41Var3);
support!(Group41Var4);
impl ControlHandler for H {}

// @harness c04_select_operate_header_status
// @props C04,C12,C01
// @tier quick
// @timeout 1800
// @mem 6
// @units select_header_with_response, operate_header_with_response, PrefixWriter::{write,write_inner}, CommandStatus::first_error, ControlTransaction::{start, select, operate}, Group41Var2::{read,write,with_status}
// @bounds one header of two analog-output commands (values, indices arbitrary), handler verdicts arbitrary for each object, max_controls_per_request none or 0..=3, objects already counted in this request 0..=2, SELECT or OPERATE, transmit space 0..=16 bytes: overall status = FIRST non-success among the per-object statuses INCLUDING the library's own TOO_MANY_OPS (so a SELECT is recorded only if every object succeeded); objects over the limit never reach the handler; the echo lists both objects with their own status; too little space => error, never a panic
#[kani::proof]
#[kani::unwind(8)]
fn c04_select_operate_header_status() {
    let mut db = DatabaseHandle::new(None, ClassZeroConfig::default(), EventBufferConfig::no_events());
    let mut h = H;
    let mut tx = ControlTransaction { started: false, handler: &mut h };
    let items: [u8; 8] = kani::any(); // two (index u8, value i16, status u8) entries as received
    let mut rc = ReadCursor::new(&items);
    let seq: CountSequence<Prefix<u8, Group41Var2>> = CountSequence::parse(2, &mut rc).unwrap();
    let s: [u8; 2] = kani::any();
    unsafe {
        STATUS = s;
        CALLS = 0;
        OPERATES = 0;
    }
    let max: Option<u16> = if kani::any() { None } else { let m: u16 = kani::any(); kani::assume(m <= 3); Some(m) };
    let n0: u16 = kani::any();
    kani::assume(n0 <= 2);
    let mut num = n0;
    let space: usize = kani::any();
    kani::assume(space <= 16);
    let mut out = [0u8; 16];
    let select: bool = kani::any();
    let r = {
        let mut cursor = WriteCursor::new(&mut out[..space]);
        if select {
            select_header_with_response(&mut cursor, &seq, &mut db, &mut tx, max, &mut num)
        } else {
            operate_header_with_response(&mut cursor, &seq, &mut db, OperateType::SelectBeforeOperate, &mut tx, max, &mut num)
        }
    };
    // reference
    let allowed = |k: u16| match max {
        None => true,
        Some(m) => n0 + k < m,
    };
    let st0 = if allowed(0) { CommandStatus::from(s[0]) } else { CommandStatus::TooManyOps };
    // the handler is consulted in order: the second object gets the handler's NEXT verdict
    let second_verdict = if allowed(0) { s[1] } else { s[0] };
    let st1 = if allowed(1) { CommandStatus::from(second_verdict) } else { CommandStatus::TooManyOps };
    match r {
        Ok(status) => {
            assert!(space >= 11); // g41v2 0x17 count + 2 x (index + value + status)
            let expect = if st0 != CommandStatus::Success { st0 } else { st1 };
            assert!(status == expect);
            assert!((status == CommandStatus::Success) == (st0 == CommandStatus::Success && st1 == CommandStatus::Success));
            assert!(num == n0 + 2);
            assert!(unsafe { CALLS } == allowed(0) as u8 + allowed(1) as u8);
            assert!(select || unsafe { OPERATES } == unsafe { CALLS });
            assert!(!select || unsafe { OPERATES } == 0);
            // echo: 29 02 17 02 | idx v v st | idx v v st
            assert!(out[0] == 41 && out[1] == 2 && out[2] == 0x17 && out[3] == 2);
            assert!(out[4] == items[0] && out[5] == items[1] && out[6] == items[2] && out[7] == st0.as_u8());
            assert!(out[8] == items[4] && out[9] == items[5] && out[10] == items[6] && out[11 - 0] == st1.as_u8() || space < 12);
        }
        Err(_) => assert!(space < 12),
    }
    kani::cover!(r.is_ok() && st0 == CommandStatus::Success && st1 == CommandStatus::TooManyOps);
    kani::cover!(matches!(r, Ok(CommandStatus::Success)));
    kani::cover!(r.is_err());
    std::mem::forget(db);
}
