"""
Object sizes in octets per group/variation, written from IEEE Std 1815-2012 Annex A (object library), NOT from the
code under test.  'bits' = packed single-bit, 'dbits' = packed double-bit.  Variations that exist only as request
placeholders (variation 0, class objects g60, "any") have no size.  The generator fails closed when the source has a
data-bearing variation that is missing here.
"""
FLAG, T48, T16 = 1, 6, 2
SIZES = {
    (1, 1): "bits", (1, 2): FLAG,
    (2, 1): FLAG, (2, 2): FLAG + T48, (2, 3): FLAG + T16,
    (3, 1): "dbits", (3, 2): FLAG,
    (4, 1): FLAG, (4, 2): FLAG + T48, (4, 3): FLAG + T16,
    (10, 1): "bits", (10, 2): FLAG,
    (11, 1): FLAG, (11, 2): FLAG + T48,
    (12, 1): 1 + 1 + 4 + 4 + 1,          # control code, count, on-time, off-time, status
    (13, 1): FLAG, (13, 2): FLAG + T48,
    (20, 1): FLAG + 4, (20, 2): FLAG + 2, (20, 5): 4, (20, 6): 2,
    (21, 1): FLAG + 4, (21, 2): FLAG + 2, (21, 5): FLAG + 4 + T48, (21, 6): FLAG + 2 + T48, (21, 9): 4, (21, 10): 2,
    (22, 1): FLAG + 4, (22, 2): FLAG + 2, (22, 5): FLAG + 4 + T48, (22, 6): FLAG + 2 + T48,
    (23, 1): FLAG + 4, (23, 2): FLAG + 2, (23, 5): FLAG + 4 + T48, (23, 6): FLAG + 2 + T48,
    (30, 1): FLAG + 4, (30, 2): FLAG + 2, (30, 3): 4, (30, 4): 2, (30, 5): FLAG + 4, (30, 6): FLAG + 8,
    (31, 1): FLAG + 4, (31, 2): FLAG + 2, (31, 3): FLAG + 4 + T48, (31, 4): FLAG + 2 + T48, (31, 5): 4, (31, 6): 2,
    (31, 7): FLAG + 4, (31, 8): FLAG + 8,
    (32, 1): FLAG + 4, (32, 2): FLAG + 2, (32, 3): FLAG + 4 + T48, (32, 4): FLAG + 2 + T48,
    (32, 5): FLAG + 4, (32, 6): FLAG + 8, (32, 7): FLAG + 4 + T48, (32, 8): FLAG + 8 + T48,
    (33, 1): FLAG + 4, (33, 2): FLAG + 2, (33, 3): FLAG + 4 + T48, (33, 4): FLAG + 2 + T48,
    (33, 5): FLAG + 4, (33, 6): FLAG + 8, (33, 7): FLAG + 4 + T48, (33, 8): FLAG + 8 + T48,
    (34, 1): 2, (34, 2): 4, (34, 3): 4,
    (40, 1): FLAG + 4, (40, 2): FLAG + 2, (40, 3): FLAG + 4, (40, 4): FLAG + 8,
    (41, 1): 4 + 1, (41, 2): 2 + 1, (41, 3): 4 + 1, (41, 4): 8 + 1,      # value + status
    (42, 1): FLAG + 4, (42, 2): FLAG + 2, (42, 3): FLAG + 4 + T48, (42, 4): FLAG + 2 + T48,
    (42, 5): FLAG + 4, (42, 6): FLAG + 8, (42, 7): FLAG + 4 + T48, (42, 8): FLAG + 8 + T48,
    (43, 1): 1 + 4, (43, 2): 1 + 2, (43, 3): 1 + 4 + T48, (43, 4): 1 + 2 + T48,
    (43, 5): 1 + 4, (43, 6): 1 + 8, (43, 7): 1 + 4 + T48, (43, 8): 1 + 8 + T48,
    (50, 1): T48, (50, 2): T48 + 4, (50, 3): T48, (50, 4): T48 + 4 + 1,
    (51, 1): T48, (51, 2): T48,
    (52, 1): 2, (52, 2): 2,
    (80, 1): "bits",
    (102, 1): 1,
}


def size_of(name):
    """name like 'Group30Var2' -> size or None"""
    import re
    m = re.match(r"Group(\d+)Var(\d+)$", name)
    if not m:
        return None
    return SIZES.get((int(m.group(1)), int(m.group(2))))
