"""
What each measurement variation can carry, from IEEE Std 1815-2012 Annex A object descriptions (NOT from the code):
value kind, whether a flag octet is present, whether a 48-bit absolute time is present.
"""
def caps(group, var):
    binary = {(1, 2): (True, False), (2, 1): (True, False), (2, 2): (True, True),
              (10, 2): (True, False), (11, 1): (True, False), (11, 2): (True, True)}
    dbl = {(3, 2): (True, False), (4, 1): (True, False), (4, 2): (True, True)}
    if (group, var) in binary:
        f, t = binary[(group, var)]
        return ("bool", f, t)
    if (group, var) in dbl:
        f, t = dbl[(group, var)]
        return ("dbit", f, t)
    counters = {
        20: {1: ("u32", True, False), 2: ("u16", True, False), 5: ("u32", False, False), 6: ("u16", False, False)},
        21: {1: ("u32", True, False), 2: ("u16", True, False), 5: ("u32", True, True), 6: ("u16", True, True),
             9: ("u32", False, False), 10: ("u16", False, False)},
        22: {1: ("u32", True, False), 2: ("u16", True, False), 5: ("u32", True, True), 6: ("u16", True, True)},
        23: {1: ("u32", True, False), 2: ("u16", True, False), 5: ("u32", True, True), 6: ("u16", True, True)},
    }
    if group in counters:
        return counters[group].get(var)
    ev = {1: ("i32", True, False), 2: ("i16", True, False), 3: ("i32", True, True), 4: ("i16", True, True),
          5: ("f32", True, False), 6: ("f64", True, False), 7: ("f32", True, True), 8: ("f64", True, True)}
    analogs = {
        30: {1: ("i32", True, False), 2: ("i16", True, False), 3: ("i32", False, False), 4: ("i16", False, False),
             5: ("f32", True, False), 6: ("f64", True, False)},
        31: {1: ("i32", True, False), 2: ("i16", True, False), 3: ("i32", True, True), 4: ("i16", True, True),
             5: ("i32", False, False), 6: ("i16", False, False), 7: ("f32", True, False), 8: ("f64", True, False)},
        32: ev, 33: ev, 42: ev,
        40: {1: ("i32", True, False), 2: ("i16", True, False), 3: ("f32", True, False), 4: ("f64", True, False)},
    }
    if group in analogs:
        return analogs[group].get(var)
    return None
