"""C18 generator: extracts the propagation-delay expression of TimeSyncTask::handle_delay_measure verbatim, so that the
arithmetic kernel the harness checks IS the source text (fails closed when the pattern no longer matches)."""
import os, re
def generate(repo, out):
    src = open(os.path.join(repo, "dnp3/src/master/tasks/time.rs")).read()
    m = re.search(r"let propagation_delay: Duration =\s*match (interval\.checked_sub\(Duration::from_millis\(delay_ms as u64\)\)) \{\s*Some\(x\) => (x / 2),", src)
    if not m:
        raise SystemExit("gen_time: propagation-delay expression in master/tasks/time.rs no longer matches (fail closed)")
    expr = "{ match %s { Some(x) => Some(%s), None => None } }" % (m.group(1), m.group(2))
    open(os.path.join(out, "time_propagation_expr.rs"), "w").write(expr + "\n")
