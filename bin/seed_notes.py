#!/usr/bin/env python3
"""records, in seeded/<id>/meta.json, why a seed is out of reach (missed_because) or which check it led to (led_to).
Hand-maintained knowledge; bin/seed_matrix.py adds what the logs of the seed runs say."""
import json, os
V = os.path.dirname(os.path.dirname(os.path.abspath(__file__)))
MISSED = {
 "C03-a": "VecList (Vec + VecDeque free list) under symbolic removal positions: 15 GB in symbolic execution for a 3-element list; list harnesses are attempt-only (DESIGN 12 walls)",
 "C04-c": "the changed code is the error exit of OutstationSession::run (async, tokio select/timers); SessionState::reset itself is decided (c04_session_reset_drops_select), who calls it is not",
 "C05-a": "OutstationSession::process_request_from_idle is an async fn over PhysLayer; only classify() and the select bookkeeping are decided",
 "C05-c": "perform_unsolicited_response_series (async confirm-wait loop); unsolicited retries are C14 territory (not applicable)",
 "C06-a": "Reader::read_frame (async over PhysLayer): async fns cannot be stubbed and a cfg(kani) PhysLayer variant makes kani-compiler panic on tokio's socket code (DESIGN 12 walls)",
 "C01-c": "same as C06-a: the lost parser reset is inside Reader::read_frame (async over PhysLayer)",
 "C12-a": "handle_freeze_at_time walks real object headers on a session: three headers through HeaderCollection::iter exceeded 28 GB (attempt-only harnesses)",
 "C15-a": "Association::handle_unsolicited_response is async; the poll-once attempt harness (c15_unsolicited_gate_and_repeat) does not finish",
 "C15-c": "MasterSession::execute_read_task (async read loop over PhysLayer and timers)",
 "C19-c": "AssociationMap::next_task rotates its ring only on paths that move a 104-byte Task by value, which stalls CBMC's symbolic execution (DESIGN 12 walls)",
}
LED_TO = {
 "C20-a": "the seven point-configuration struct harnesses (c20_*_config_*)",
 "C13-a": "unwind bound of c13_overflow_bit_all_types corrected (was inconclusive)",
 "C01-b": "@progress: an unwinding-assertion failure inside Parser::parse is a VIOLATION ('never spins'), not 'bound too small'",
 "C12-b": "c12_unsolicited_not_supported_by_config (quick)",
 "C20-b": "c20_native_time_to_ffi, c20_native_measurements_to_ffi, c20_native_iin_to_ffi (native -> binding direction)",
 "C19-b": "c19_next_task_* (constant-variant stubs prune the Task-moving arms)",
 "C03-c": "c03_capacity_is_sum_of_type_limits",
 "C09-c": "c09_prefix_writer_truncation_u8/u16",
 "C07-c": "replay block selection fixed (multi-line cover description); the solver had found it, the replay said exit 2",
 "C18-c": "c12_time_and_restart_responses now starts from an arbitrary earlier record",
 "C12-c": "c12_session_sizes_from_config",
 "C16-c": "c16_builder_keeps_objects_after_* (request construction)",
 "C17-c": "c17_auto_task_order (marking stub instead of building Task values)",
 "C20-c": "c20_update_options_fields (the harness that claimed UpdateOptions only checked EventClass)",
 "C11-a": "c11_one_point_default_packed (thorough tier, 35 GB)",
 "C10-c": "c11_one_point_requested_packed (thorough tier, 35 GB)",
}
for seed, why in MISSED.items():
    p = os.path.join(V, "seeded", seed, "meta.json")
    m = json.load(open(p)); m["missed_because"] = why; json.dump(m, open(p, "w"), indent=1)
for seed, what in LED_TO.items():
    p = os.path.join(V, "seeded", seed, "meta.json")
    m = json.load(open(p)); m["led_to"] = what; json.dump(m, open(p, "w"), indent=1)
print("ok")
