#!/usr/bin/env python3
"""prints the per-property table of DESIGN.md section 11 from the harness metadata (bin/check --list)"""
import collections, os, re, subprocess, sys
V = os.path.dirname(os.path.dirname(os.path.abspath(__file__)))
rows = subprocess.run([os.path.join(V, "bin", "check"), "--list"], stdout=subprocess.PIPE, text=True).stdout.splitlines()
per = collections.defaultdict(lambda: {"quick": [], "thorough": [], "attempt": []})
for r in rows:
    f = r.split()
    if len(f) < 5:
        continue
    name, props, tier, _t, cls = f[:5]
    for p in props.split(","):
        k = "attempt" if cls == "attempt" else tier
        per[p][k].append(name)


def fam(names):
    c = collections.Counter(re.sub(r"(_n\d+|_block\d+|_group\d+var\d+|_g\d+v?\d*.*|_u8|_u16)$", "", re.sub(r"^c\d\d_", "", n)) for n in names)
    return ", ".join(f"{k}×{v}" if v > 1 else k for k, v in sorted(c.items(), key=lambda x: -x[1])[:9]) + (" …" if len(c) > 9 else "")


print("| id | quick (registered) | thorough adds (registered) | attempt-only |")
print("|----|----|----|----|")
for p in sorted(per):
    d = per[p]
    print(f"| {p} | {len(d['quick'])}: {fam(d['quick'])} | {len(d['thorough'])}: {fam(d['thorough'])} | {len(d['attempt'])}: {fam(d['attempt'])} |")
