#!/usr/bin/env python3
"""append the cfg(kani) hook lines listed in /verif/hooks.txt to the files of a dnp3 checkout (default /repo) when missing.
hooks.txt line:  <source file relative to repo>  <harness file under /verif/harness>  [<module name>]  [pub]
          or:  RAW <source file> <text to append; " ;; " = newline>"""
import sys, os
repo = sys.argv[1] if len(sys.argv) > 1 else "/repo"
here = os.path.dirname(os.path.dirname(os.path.abspath(__file__)))
for line in open(os.path.join(here, "hooks.txt")):
    if line.startswith("RAW "):
        _, src, text = line.rstrip("\n").split(" ", 2)
        p = os.path.join(repo, src)
        s = open(p).read()
        text = text.replace(" ;; ", "\n")
        if text in s:
            continue
        if not s.endswith("\n"):
            s += "\n"
        open(p, "w").write(s + "\n" + text + "\n")
        print("hooked (raw)", src)
        continue
    line = line.split("#")[0].split()
    if not line:
        continue
    src, hfile = line[0], line[1]
    mod = line[2] if len(line) > 2 else "verif_harness"
    vis = "pub(crate) " if len(line) > 3 and line[3] == "pub" else ""
    hook = f'\n#[cfg(kani)]\n#[path = "/verif/harness/{hfile}"]\n{vis}mod {mod};\n'
    p = os.path.join(repo, src)
    s = open(p).read()
    if f'/verif/harness/{hfile}"' in s:
        continue
    if not s.endswith("\n"):
        s += "\n"
    open(p, "w").write(s + hook)
    print("hooked", src)
