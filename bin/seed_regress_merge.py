#!/usr/bin/env python3
"""after a regression of the caught seeds (logs in /var/tmp/regress, written by run_seeded.sh with VERIF_SEED_LOGDIR):
sets caught_by of each re-run seed to what the FINAL checks reported, and records the regression in meta.json"""
import glob, json, os, re, time
V = os.path.dirname(os.path.dirname(os.path.abspath(__file__)))
n = 0
for lg in sorted(glob.glob("/var/tmp/regress/seed-*.log")):
    base = os.path.basename(lg)[5:-4]
    seed, prop = base.rsplit("-", 1)
    mp = os.path.join(V, "seeded", seed, "meta.json")
    if not os.path.exists(mp):
        continue
    txt = open(lg, errors="replace").read()
    tier = "thorough" if "/thorough]" in txt else "quick"
    hs = sorted(set(re.findall(r"^\s+harness (\S+):", txt, re.M)))
    m = json.load(open(mp))
    if "VIOLATION property=" in txt and hs:
        m["caught_by"] = [f"{prop}/{tier}: {h}" for h in hs]
        m["regression"] = {"when": time.strftime("%Y-%m-%d", time.gmtime(os.path.getmtime(lg))), "outcome": "violation reported again by the final checks", "harnesses": hs}
        n += 1
    else:
        m["regression"] = {"when": time.strftime("%Y-%m-%d", time.gmtime(os.path.getmtime(lg))), "outcome": "NOT reported (see log)", "harnesses": hs}
        print("not reported:", seed, prop)
    json.dump(m, open(mp, "w"), indent=1)
print("merged", n)
