"""
Counterexample replay.

make_replay(): re-runs ONE failing harness through `cargo kani -Z concrete-playback --concrete-playback=print`
(the official Kani pipeline, so the verdict of bin/check's own CBMC driver is cross-checked by kani-driver),
extracts the concrete values of every kani::any() and stores them in /verif/replays/<prop>/<harness>.json.

run_replay(): executes a stored counterexample NATIVELY against /repo's current working tree: the harness function
is compiled into the real crate (cfg(kani), Kani's playback runtime: kani::any() pops the stored values, no solver
involved), exported through a #[no_mangle] entry point and called from an example binary - i.e. *not* under
cfg(test), so the production transport/link code is what runs.  Dev profile first (the one Kani models), then release.
exit 1 = reproduced (panic), 0 = did not reproduce, 2 = could not build.
"""
import os, re, json, subprocess, shutil, time, sys

KANI_HOME = os.path.expanduser("~/.kani/kani-0.68.0")


def playback_env(gen_dir):
    flags = ["-Coverflow-checks=on", "-Zunstable-options", "-Ztrim-diagnostic-paths=no", "-Zhuman_readable_cgu_names",
             "-Zalways-encode-mir", "--cfg=kani", "-Zcrate-attr=feature(register_tool)",
             "-Zcrate-attr=register_tool(kanitool)", "--sysroot", f"{KANI_HOME}/playback",
             "-L", f"{KANI_HOME}/playback/lib", "--extern", "force:kani",
             "--extern", f"noprelude,nounused:std={KANI_HOME}/playback/lib/libstd.rlib", "--cap-lints", "warn",
             "--check-cfg=cfg(kani)"]
    e = dict(os.environ)
    e["CARGO_ENCODED_RUSTFLAGS"] = "\x1f".join(flags)
    e.pop("RUSTFLAGS", None)
    e["RUSTC"] = f"{KANI_HOME}/bin/kani-compiler"
    e["RUSTC_BOOTSTRAP"] = "1"
    e["CARGO_NET_OFFLINE"] = "true"
    e["VERIF_GEN_DIR"] = gen_dir
    e["RUST_BACKTRACE"] = "0"
    return e


def trace_confirm(C, h, res, path, art):
    """heavy harnesses whose stubs rule out a native run: second solver run on the ONE failed property with --trace;
    the assignments CBMC made to the harness' own variables are stored as the counterexample"""
    props = [d["property"] for d in res["failed"] if d.get("property")][:1]
    cmd = [x for x in res["cbmc_cmd"] if x not in ("--json-ui",)]
    cmd = cmd[:1] + ["--trace", "--stop-on-fail", "--json-ui"] + sum((["--property", q] for q in props), []) + cmd[1:]
    out_json = path[:-5] + ".cbmc-trace.json"
    rc, dt = C.run_logged(cmd, path[:-5] + ".cbmc-trace.log", max(1800, h["timeout"] * 2), res.get("mem_limit_gb", 16), stdout_path=out_json)
    verdict, assigns = "unknown", []
    try:
        j = json.load(open(out_json))
        for o in j:
            # --stop-on-fail prints the failed property as a top-level object, without it they sit under "result"
            rs = o["result"] if "result" in o else ([o] if "property" in o and "status" in o else None)
            if rs is not None:
                for r in rs:
                    if str(r.get("status")).upper() in ("FAILURE", "FAILED") and (not props or r.get("property") in props):
                        verdict = "FAILED"
                        for st in r.get("trace", []):
                            if st.get("stepType") == "assignment" and not st.get("hidden"):
                                sl = st.get("sourceLocation", {})
                                if "/verif/harness" in sl.get("file", "") or "verif_harness" in sl.get("function", ""):
                                    v = st.get("value", {})
                                    assigns.append({"lhs": st.get("lhs"), "value": v.get("data", v.get("name")), "line": sl.get("line")})
                if verdict != "FAILED" and any(str(r.get("status")).upper() == "SUCCESS" for r in rs):
                    verdict = "SUCCESSFUL"
            if o.get("cProverStatus") == "success" and verdict != "FAILED":
                verdict = "SUCCESSFUL"
    except Exception as e:  # noqa
        verdict = f"unknown ({e})"
    try:
        if verdict == "FAILED" or os.path.getsize(out_json) > (64 << 20):
            os.remove(out_json)  # can be hundreds of MB; kept (when small) if the verdict needs triage
    except OSError:
        pass
    art["replay_mode"] = "trace"
    art["confirmation"] = "second CBMC run restricted to the failed property with --trace (harness too heavy for a kani-driver re-run: declared %s GB)" % h.get("mem")
    art["kani_driver_verdict"] = "not run"
    art["cbmc_trace_verdict"] = verdict
    art["trace_assignments"] = assigns[-400:]
    art["concrete_vals"] = None
    with open(path, "w") as f:
        json.dump(art, f, indent=1)
    return path, verdict == "FAILED", f"counterexample confirmed by a second solver run on the failed property ({dt:.0f} s); {len(assigns)} harness assignments stored (harness too heavy for kani-driver playback, or stubbed)"


def make_replay(C, prop, h, res):
    """returns (path, reproduced, detail)"""
    name = h["harness"]
    outdir = os.path.join(os.environ.get("VERIF_REPLAY_DIR", os.path.join(C.VERIF, "replays")), prop)
    os.makedirs(outdir, exist_ok=True)
    path = os.path.join(outdir, name + ".json")
    art = {"property": prop, "harness": name, "harness_file": os.path.relpath(h["file"], C.VERIF) if h["file"].startswith(C.VERIF) else h["file"],
           "crate": h["crate"], "failed_checks": res["failed"], "repo_head": C.git_head(C.REPO),
           "how_to_run": f"cd /verif && bin/check --replay {path}", "concrete_vals": None}
    detail = ""
    # harnesses declared at 10 GB or more: kani-driver's own run (needed for concrete playback values, and the only
    # confirmation for stubbed harnesses) has been seen to need 40+ GB and hours; they are confirmed by a second CBMC
    # run on the single failed property instead, whatever their replay mode
    if h.get("mem", 3) >= int(os.environ.get("VERIF_TRACE_CONFIRM_MIN_MEM", "10")) \
            and res.get("goto") and os.path.exists(res["goto"]):
        return trace_confirm(C, h, res, path, art)
    with C.Scratch(f"replay-{prop}-{name}") as sc:
        C.run_generators(sc)
        sc.td = os.path.join(sc.root, "td")
        sc.seed_target(h["crate"])
        pkg, feat, shim = C.CRATES[h["crate"]]
        sc.cargo_config(shim)
        mode0 = h.get("replay", "native")
        cmd = ["cargo", "kani", "-p", pkg] + feat + ["-Z", "stubbing", "--target-dir", sc.td, "--harness", name]
        if mode0 != "trace":
            # concrete values are only needed when the counterexample is going to be executed natively
            cmd += ["-Z", "concrete-playback", "--concrete-playback=print"]
        try:
            p = subprocess.run(cmd, cwd=sc.repo, env=C.kani_env(sc.gen), stdout=subprocess.PIPE, stderr=subprocess.STDOUT,
                               text=True, timeout=max(900, h["timeout"] * 4), preexec_fn=C.limit_mem(40))
            out = p.stdout
        except subprocess.TimeoutExpired as e:
            out = (e.stdout or b"").decode(errors="replace") if isinstance(e.stdout, bytes) else (e.stdout or "")
            detail = "concrete playback generation timed out; "
        try:  # kept next to the artifact: what kani-driver said (for triage of replays that do not reproduce)
            with open(path[:-5] + ".kani-driver.log", "w") as lf:
                lf.write(out)
        except OSError:
            pass
        # Kani prints one test per failed check AND one per satisfied cover!; take the first that is not a cover
        m = None
        for blk in out.split("Concrete playback unit test for")[1:]:
            # (descriptions can span several lines - match the class only)
            chk = re.search(r"/// Check for `([^`]*)`:\s*\"?([^\n]*)", blk)
            if chk is None or chk.group(1) == "cover":
                continue
            m = re.search(r"let concrete_vals: Vec<Vec<u8>> = vec!\[(.*?)\n\s*\];", blk, re.S)
            if m:
                art["playback_check"] = chk.group(2) if chk else ""
                break
        kani_failed = "VERIFICATION:- FAILED" in out
        art["kani_driver_verdict"] = "FAILED" if kani_failed else ("SUCCESSFUL" if "VERIFICATION:- SUCCESSFUL" in out else "unknown")
        if m:
            art["concrete_vals"] = "vec![" + m.group(1) + "\n]"
        else:
            detail += "kani produced no concrete values; "
    mode = h.get("replay", "native")
    if res.get("progress_violation"):
        # "the loop does not terminate within the claimed bound": natively that is a hang, which proves nothing in
        # finite time; the counterexample is confirmed by the independent kani-driver run above instead
        mode = "trace"
        art["progress_violation"] = True
    art["replay_mode"] = mode
    with open(path, "w") as f:
        json.dump(art, f, indent=1)
    if mode == "trace":
        with open(path, "w") as f:
            json.dump(art, f, indent=1)
        ok = art["kani_driver_verdict"] == "FAILED"
        return path, ok, detail.replace("kani produced no concrete values; ", "") + "solver counterexample confirmed by an independent kani-driver run (stubs prevent native replay)"
    if art["concrete_vals"] is None:
        return path, False, detail + "kani-driver verdict " + art["kani_driver_verdict"]
    if mode == "trace":
        # harness depends on #[kani::stub] replacements that cannot be applied natively: the counterexample is
        # confirmed by the independent kani-driver run above, not by native execution.
        ok = art["kani_driver_verdict"] == "FAILED"
        return path, ok, "solver counterexample confirmed by kani-driver re-run (stubs prevent native replay)"
    rc, detail2 = native_run(C, art)
    art["native"] = detail2
    with open(path, "w") as f:
        json.dump(art, f, indent=1)
    return path, rc == 1, detail + detail2


def native_run(C, art):
    """returns (1 reproduced / 0 not / 2 build problem, text)"""
    name = art["harness"]
    hfile = art["harness_file"]
    if not os.path.isabs(hfile):
        hfile = os.path.join(C.VERIF, hfile)
    with C.Scratch(f"native-{name}") as sc:
        C.run_generators(sc)
        pkg, feat, shim = C.CRATES[art["crate"]]
        sc.cargo_config(shim)
        # private copy of the harness directory with the entry point appended to the harness's own module
        hdir = os.path.join(sc.root, "harness")
        shutil.copytree(os.path.join(C.VERIF, "harness"), hdir)
        if hfile.startswith(os.path.join(C.VERIF, "harness")):
            target = os.path.join(hdir, os.path.relpath(hfile, os.path.join(C.VERIF, "harness")))
        else:  # generated file: entry goes into the generated copy in sc.gen
            target = os.path.join(sc.gen, os.path.basename(hfile))
        entry = ("\n#[no_mangle]\npub extern \"C-unwind\" fn verif_replay_entry() {\n"
                 "    let concrete_vals: Vec<Vec<u8>> = %s;\n"
                 "    kani::concrete_playback_run(concrete_vals, %s);\n}\n" % (art["concrete_vals"], name))
        with open(target, "a") as f:
            f.write(entry)
        # point the hooks of the copied tree at the private harness directory
        for root, _, files in os.walk(sc.repo):
            if "/target" in root:
                continue
            for fn in files:
                if fn.endswith(".rs"):
                    p = os.path.join(root, fn)
                    s = open(p, encoding="utf-8", errors="replace").read()
                    if "/verif/harness/" in s:
                        open(p, "w", encoding="utf-8").write(s.replace('"/verif/harness/', '"' + hdir + "/"))
        crate_dir = {"dnp3": "dnp3", "dnp3-ffi": "ffi/dnp3-ffi"}[art["crate"]]
        exdir = os.path.join(sc.repo, crate_dir, "examples")
        os.makedirs(exdir, exist_ok=True)
        with open(os.path.join(exdir, "verif_replay.rs"), "w") as f:
            f.write("//! native replay driver\n#![allow(missing_docs)]\nextern crate %s;\n"
                    "extern \"C-unwind\" { fn verif_replay_entry(); }\n"
                    "fn main() { unsafe { verif_replay_entry() } ; println!(\"REPLAY-COMPLETED-WITHOUT-PANIC\"); }\n"
                    % (pkg.replace("-", "_"),))
        texts = []
        verdict = 2
        ntd = os.path.join(sc.root, "ntd")
        for profile in ("dev", "release"):
            cmd = ["cargo", "build", "-p", pkg] + feat + ["--example", "verif_replay", "--target-dir", ntd,
                                                          "--target", "x86_64-unknown-linux-gnu"]
            if profile == "release":
                cmd.append("--release")
            p = subprocess.run(cmd, cwd=sc.repo, env=playback_env(sc.gen), stdout=subprocess.PIPE, stderr=subprocess.STDOUT, text=True)
            exe = os.path.join(ntd, "x86_64-unknown-linux-gnu", "debug" if profile == "dev" else "release", "examples", "verif_replay")
            if p.returncode != 0 or not os.path.exists(exe):
                texts.append(f"{profile}: build problem rc={p.returncode}: " + p.stdout[-800:])
                if profile == "dev":
                    verdict = 2
                break
            env = dict(os.environ)
            env["RUST_BACKTRACE"] = "0"
            try:
                r = subprocess.run([exe], stdout=subprocess.PIPE, stderr=subprocess.STDOUT, text=True, env=env, timeout=600)
                out, rc = r.stdout, r.returncode
            except subprocess.TimeoutExpired:
                out, rc = "timeout (native run did not terminate in 600 s)", -1
            if rc == 0 and "REPLAY-COMPLETED-WITHOUT-PANIC" in out:
                texts.append(f"{profile}: ran to completion, no panic")
                if profile == "dev":
                    verdict = 0
            else:
                msg = re.search(r"panicked at ([^\n]*)\n([^\n]*)", out)
                texts.append(f"{profile}: PANIC rc={rc} {msg.group(1) if msg else out[-200:]} {msg.group(2) if msg else ''}")
                if profile == "dev":
                    verdict = 1
        return verdict, " | ".join(texts)


def run_replay(C, path):
    art = json.load(open(path))
    if art.get("concrete_vals") is None:
        print("replay artifact has no concrete values")
        return 2
    if art.get("replay_mode") == "trace":
        print("this counterexample depends on verification stubs; re-run the harness instead:",
              f"bin/check {art['property']} --tier thorough --only {art['harness']}")
        return 2
    rc, text = native_run(C, art)
    print(f"replay of {art['harness']} ({art['property']}): {text}")
    if rc == 1:
        print(f"VIOLATION property={art['property']} replay={path}")
    return rc
