#!/usr/bin/env python3
"""collects /var/tmp/seed-<seed>-<prop>.log (written by bin/run_seeded.sh) into seeded/<seed>/meta.json
(checks_run, caught_by) and prints the matrix; with --design rewrites section 14 of DESIGN.md"""
import glob, json, os, re, sys
V = os.path.dirname(os.path.dirname(os.path.abspath(__file__)))
rows = []
for d in sorted(glob.glob(os.path.join(V, "seeded", "*"))):
    seed = os.path.basename(d)
    mp = os.path.join(d, "meta.json")
    if not os.path.exists(mp):
        continue
    m = json.load(open(mp))
    caught, ran = [], []
    for lg in sorted(glob.glob(f"/var/tmp/seed-{seed}-*.log")):
        prop = lg.rsplit("-", 1)[1][:-4]
        txt = open(lg, errors="replace").read()
        tier = "thorough" if "/thorough]" in txt else "quick"
        hs = re.findall(r"^\s+harness (\S+):", txt, re.M)
        rc = "violation" if "VIOLATION property=" in txt else ("held" if "] held:" in txt else "inconclusive")
        ran.append({"check": f"{prop}/{tier}", "outcome": rc, "harnesses": sorted(set(hs))})
        if rc == "violation":
            caught += [f"{prop}/{tier}: {h}" for h in sorted(set(hs))]
    if ran:
        m["checks_run"] = ran
        # keep an earlier positive result if the latest log on disk is from a narrower re-run
        prev = m.get("caught_by") or []
        m["caught_by"] = sorted(set(caught) | set(prev)) if (caught or prev) else []
        json.dump(m, open(mp, "w"), indent=1)
    rows.append((seed, m))

lines = ["| seed | property | what was changed (file) | outcome |", "|---|---|---|---|"]
n_caught = n_missed = 0
for seed, m in rows:
    what = (m.get("breaks") or "")[:150].replace("\n", " ").replace("|", "/")
    files = ", ".join(os.path.basename(f) for f in m.get("files", []))
    cb = m.get("caught_by")
    star = " ★ " + m["led_to"] if m.get("led_to") else ""
    if cb:
        hs = sorted(set(c.split(": ")[1] for c in cb))
        tiers = sorted(set(c.split(":")[0] for c in cb))
        out = f"**caught** by {', '.join(hs[:3])}{' …' if len(hs) > 3 else ''} ({', '.join(tiers)}){star}"
        n_caught += 1
    elif cb is None:
        out = "not run"
    else:
        out = "**missed** — " + m.get("missed_because", "(no reason recorded)") + star
        n_missed += 1
    lines.append(f"| {seed} | {m.get('property')} | {what} ({files}) | {out} |")
table = "\n".join(lines)
n_reg = sum(1 for _, m in rows if m.get("regression"))
n_reg_ok = sum(1 for _, m in rows if m.get("regression", {}).get("outcome", "").startswith("violation"))
print(table)
print(f"\ncaught {n_caught}, missed {n_missed}, of {len(rows)}")
if "--design" in sys.argv:
    p = os.path.join(V, "DESIGN.md")
    s = open(p).read()
    i = s.index("## 14. Seeded changes")
    head = s[:i]
    body = f"""## 14. Seeded changes (independent sub-agents, property text + scratch worktree only) and who catches them

Three rounds of sub-agents were given only the text of one property and a scratch git worktree of /repo (from round 2
on also the one-paragraph descriptions of earlier seeds for that property, so as not to repeat them) and asked for a
subtle change that breaks the property, compiles, keeps the 245 tests green and needs something specific to show,
with a demonstration test.  Each was confirmed by me (`seeded/<id>/meta.json: confirmed_by_me`: the demonstration
fails with the patch and passes without it, the existing tests pass with the patch) and then run against the checks
in a scratch worktree with `bin/run_seeded.sh` (never in /repo).  `F*-revert` are the reverts of the `fix:` commits.
★ marks a check that was **added or corrected because the seed was missed at first** - the outcome shown is the one
after that work.  Seeds that stay missed are the honest boundary of this technique on this code base: all but one
(C03-a) sit in `async` code behind `PhysLayer`/timers or on paths that move large enums by value.

{table}

Totals: {n_caught} caught, {n_missed} missed, {len(rows)} seeds.

Regression at the end of the build: {n_reg} of the caught seeds (all but the two that need the 35 GB one-point
database harness, which were run once against the final harness) were run again against the final state of /verif
(`seeded/*/meta.json: regression`); {n_reg_ok} were reported again.
"""
    open(p, "w").write(head + body)
    print("DESIGN.md section 14 rewritten")
