#!/usr/bin/env python3
"""collects /var/tmp/seed-<seed>-<prop>.log into seeded/<seed>/meta.json (caught_by) and prints the matrix for DESIGN.md"""
import glob, json, os, re
V = os.path.dirname(os.path.dirname(os.path.abspath(__file__)))
rows = []
for d in sorted(glob.glob(os.path.join(V, "seeded", "*"))):
    seed = os.path.basename(d)
    mp = os.path.join(d, "meta.json")
    if not os.path.exists(mp):
        continue
    m = json.load(open(mp))
    caught, ran = [], []
    for lg in sorted(glob.glob(f"/var/tmp/seed-{seed}-*.log")):
        prop = lg.rsplit("-", 1)[1][:-4]
        txt = open(lg, errors="replace").read()
        tier = "thorough" if "/thorough]" in txt else "quick"
        hs = re.findall(r"^\s+harness (\S+):", txt, re.M)
        rc = "violation" if "VIOLATION property=" in txt else ("held" if "] held:" in txt else "inconclusive")
        ran.append({"check": f"{prop}/{tier}", "outcome": rc, "harnesses": sorted(set(hs))})
        if rc == "violation":
            caught += [f"{prop}/{tier}: {h}" for h in sorted(set(hs))]
    if ran:
        m["checks_run"] = ran
        m["caught_by"] = caught if caught else m.get("caught_by")
        if not caught:
            m["caught_by"] = []
        json.dump(m, open(mp, "w"), indent=1)
    rows.append((seed, m.get("property"), (m.get("breaks") or "")[:110].replace("\n", " "), m.get("caught_by"), m.get("missed_because", "")))
for seed, prop, what, caught, why in rows:
    c = "not run" if caught is None else ("; ".join(caught) if caught else "**missed** " + why)
    print(f"| {seed} | {prop} | {what} | {c} |")
