#!/usr/bin/env python3
"""writes /verif/MANIFEST.json from the table below (single source of truth for what is claimed)"""
import json, os, subprocess
V = os.path.dirname(os.path.dirname(os.path.abspath(__file__)))
TECH = "bounded symbolic execution of the real Rust code (Kani 0.68 -> CBMC 6.11, CaDiCaL); solver verdict per harness, counterexamples replayed natively"
CLAIMS = {
 # id: (level text, level note, design ref)
 "C06": ("Bounded model checking of the link codec: table CRC step == bit-serial CRC-16/DNP for all 2^24 (acc,byte) pairs, GF(2)-linearity, header accept <=> length>=5 and reference CRC with fields decoded as transmitted, Hamming distance >= 4 of header and body blocks via syndromes built by the real CRC code, body de-framing for payload lengths 1..250 and format->parse round trips for 0..249 application bytes (checksum abstracted there), sync-search automaton and step atomicity in discard/close mode.",
         "Induction over bytes (CRC) and over calls (chunk independence) are arguments, the steps are solver results. CRC abstracted by a cheap checksum inside the framing loops. Reader::read_frame (async), datagram-mode reset and resynchronisation inside an already-consumed header (state ReadBody) are outside the claim.",
         "DESIGN.md §5 C06"),
 "C07": ("Bounded model checking of link addressing: process_header for all 2^41 (control, destination, source) x roles x self-address x local address x secondary states incl. a retransmitted frame; broadcast FIR+FIN rule of the assembler; the foreign-master/broadcast filter of pop_request over every parse outcome.",
         "Decides the synchronous filters only: that no async path writes a response for a broadcast or foreign fragment in confirm-wait states is outside the claim.",
         "DESIGN.md §5 C07"),
 "C08": ("Bounded model checking of transport reassembly as a one-step inductive specification (any state, any buffer content, any segment) plus a 3-segment fault-injection cross-check and real-size length arithmetic; link framing round trip for every segment length shared with C06.",
         "Capacity 8 stands for 249..2048 in the content-tracking step (size-agnostic code; real sizes in c08_assembler_lengths). Writer::write is async: its chunk arithmetic is checked on the extracted expressions. Induction over segments is an argument.",
         "DESIGN.md §5 C08"),
 "C04": ("Bounded model checking of the SELECT/OPERATE matching predicate and select-state bookkeeping over all sequence numbers, frame ids, hashes, clock readings and timeouts 1 ms..1 h; the solver decides, nothing is sampled.",
         "Decides match_operate/update_frame_id and the synchronous control-collection helpers; that the session records a select only after an all-success SELECT and actuates exactly once lives in async code and is outside the claim. Clock stubbed by an arbitrary instant.",
         "DESIGN.md §5 C04"),
}
NA = {
 "C02": "needs two tokio tasks, user threads, real sockets and reconnect timing; Kani/CBMC has no concurrency or I/O model, and cutting those away leaves nothing of the property",
 "C14": "every clause is temporal over tokio::select!/timer code (async confirm-wait loops) that bounded symbolic execution could not execute (DESIGN.md §2.9)",
}
PENDING = "check not built yet in this revision of /verif (see DESIGN.md for the plan); not claimed until a registered harness family exists"

def main():
    props = [json.loads(l)["id"] for l in open(os.path.join(V, "properties.jsonl"))]
    hooks = subprocess.run(["git", "-C", "/repo", "log", "--format=%h %s"], capture_output=True, text=True).stdout.splitlines()
    hook_commits = [l.split()[0] for l in hooks if "verif hook" in l]
    m = {
     "version": 1,
     "setup_cmd": "bin/check --setup",
     "hooks": {
       "guard": "cfg(kani)",
       "enable": "cargo kani (sets --cfg kani); hooks are `#[cfg(kani)] #[path = \"/verif/harness/<file>.rs\"] mod verif_harness;` lines appended to source files (list: /verif/hooks.txt)",
       "baseline_off_cmd": "cd /repo && cargo test --workspace --no-fail-fast --offline",
       "source_commits": hook_commits,
       "add_only": True,
     },
     "engines": [{"name": "kani-cbmc", "path": "bin/check", "serves_properties": sorted(CLAIMS), "kind_free_text": "Kani 0.68 front end, own CBMC 6.11 driver (same flags as kani-driver), CaDiCaL; Kani concrete playback for native replay"}],
     "checks": [],
     "not_applicable": [],
     "notes": "exit 2 = check inconclusive/broken (never reported as held). Evidence is rewritten by every run. known_findings.txt lists recorded/fixed defects.",
    }
    for p in props:
        if p in CLAIMS:
            text, note, ref = CLAIMS[p]
            m["checks"].append({
              "property_id": p,
              "quick_cmd": f"bin/check {p} --tier quick",
              "thorough_cmd": f"bin/check {p} --tier thorough",
              "evidence_file": f"evidence/{p}.json",
              "replay_cmd_template": "bin/check --replay {path}",
              "engine": "kani-cbmc",
              "level_claimed": {"category": "model_checking", "text": text, "design_ref": ref},
              "level_note": note,
              "technique": TECH,
            })
        else:
            m["not_applicable"].append({"property_id": p, "reason": NA.get(p, PENDING)})
    json.dump(m, open(os.path.join(V, "MANIFEST.json"), "w"), indent=1)
    print("claimed:", sorted(CLAIMS), "not applicable:", [x["property_id"] for x in m["not_applicable"]])
main()
