#!/usr/bin/env python3
"""writes /verif/MANIFEST.json from the table below (single source of truth for what is claimed)"""
import json, os, subprocess
V = os.path.dirname(os.path.dirname(os.path.abspath(__file__)))
TECH = "bounded symbolic execution of the real Rust code (Kani 0.68 -> CBMC 6.11, CaDiCaL); solver verdict per harness, counterexamples replayed natively"
CLAIMS = {
 # id: (level text, level note, design ref)
 "C01": ("Bounded model checking for absence of panics (unwrap/expect, arithmetic overflow, out-of-bounds, unreachable) and of unbounded loops (unwinding assertions) in every synchronous decode unit driven by arbitrary peer bytes: link sync/header/body steps and dispatch, assembler step with real buffer sizes, application fragment header, every object variation x qualifier container (parse and iterate), event-ledger counters, the receive-buffer arithmetic, attribute values.  'Never spins' is decided for the link dispatch loops as an unwinding assertion (at most 4 iterations for 1-2 bytes; a failure there is a VIOLATION).  Kani's implicit checks are the property; every harness of the families C06/C08/C09/C03 tagged C01 contributes.",
         "Per-unit: liveness after the hostile input (keeps serving), socket chunking and everything in async session/task code is outside the claim; logging is stubbed (Display never evaluated). In particular the panic F6 (OPERATE echo larger than the transmit buffer, async handle_operate) was found by reading, demonstrated natively and repaired (fix: d0d2676), but no check of this directory would notice its return.",
         "DESIGN.md §5 C01"),
 "C03": ("Bounded model checking of the event ledger on the real EventBuffer: after every operation of an operation-kind skeleton (insert x2 types, select, write, confirm-clear, reset; all data symbolic) counters equal ground truth recomputed from the list, release happens only by clear_written with exactly-once event_cleared(id), oldest-first, overflow discards the oldest of the same type and reports both ids; the shared list is sized for the sum of all per-type limits.",
         "Skeleton lengths <= 4 in the quick tier (<= 6 attempted in thorough), capacities 2+1, Event::write abstracted to fits/does-not-fit. Which session paths call reset/clear_written (async confirm waits) is outside the claim.",
         "DESIGN.md §5 C03"),
 "C05": ("Bounded model checking of repeat recognition on a real OutstationSession: classify says Repeat <=> same sequence AND same xxh64 of the fragment (real hash), READ/non-READ split, confirms never repeats, broadcast before everything; session reset forgets the last request.",
         "Thin: that a recognised repeat is not executed again and that the echo is byte-identical on the wire lives in async code and is NOT decided. Fragments of 2-3 bytes (the real hash is intractable beyond).",
         "DESIGN.md §5 C05"),
 "C09": ("Bounded model checking, one harness per (variation, container, index width) generated from the container enums of the code with object sizes from a hand-written table of IEEE 1815 Annex A: accepted => bytes consumed = what group/variation/qualifier/count imply, iteration yields exactly count objects with the declared indices, each re-encoding to the bytes it was read from (read/write agree), second pass == first pass; rejected => justified; fragment headers for both directions.",
         "At most 2 objects per header accepted (counts beyond are rejected for lack of bytes, which is also checked); free-format (g70) and attribute (g0) objects and multi-header fragments are not in the generated family; request builders are covered through the response/command writers they share.",
         "DESIGN.md §5 C09"),
 "C10": ("Bounded model checking of every measurement <-> variation conversion pair found in app/gen/conversion.rs (69 pairs): measurement (all value bit patterns, flags, time) -> variation -> wire bytes -> variation -> measurement, with capability table from the standard: saturation + OVER_RANGE, low 16 bits for counters, state bits in flags, time carried exactly, nothing wrapped or sign-flipped.",
         "Static/event writers' header logic (promote, CTO grouping) and the master's extraction loop are not composed into these queries.",
         "DESIGN.md §5 C10"),
 "C11": ("THIN. Bounded model checking of the static-data response writer (RangeWriter): points written at arbitrary ascending indices are reported once each, in order, contiguous runs sharing a header with a correctly patched stop field, bit-packed values LSB first (ten points, two data bytes); a point that does not fit leaves everything before it intact and signals the caller to resume in the next fragment.  Thorough tier only: the snapshot clause on a real StaticDatabase with ONE binary point - select, later update, write: value, flags and the choice between packed g1v1 and flagged g1v2 all come from the value at selection time, for a requested and for a default packed variation.",
         "The one-point database harnesses need about 35 GB and 24 minutes each and are therefore thorough-tier; with two or more points (exactly-once across fragments, resume index) the BTreeMap-backed code did not finish in any formulation (attempt-only c11_snapshot_*). FIR/FIN/CON and the confirm gate are async. The quick tier decides the writer only: its exit 0 says nothing about the snapshot clause.",
         "DESIGN.md §5 C11, §12 walls"),
 "C12": ("Bounded model checking of the synchronous response builders on a real OutstationSession: sequence = request's, UNS clear, FIR/FIN, objects exactly as specified and bounded, every object parse error maps to a non-empty IIN2, ENABLE/DISABLE_UNSOLICITED refused when unsolicited reporting is switched off by configuration, restart-bit write semantics, transmit buffers sized from the right configuration field.",
         "The async dispatcher (which functions get no reply, controls, wait states) is outside the claim.  Every handler that walks real object headers of a request on a session (ENABLE/DISABLE with headers, FREEZE, WRITE: 'each header processed, errors OR-ed') exceeded 28 GB and is attempt-only: exit 0 says nothing about those clauses.",
         "DESIGN.md §5 C12"),
 "C13": ("Bounded model checking of IIN truth: class bits/overflow vs ground truth after every event-buffer operation (shared with C03), get_response_iin bit mapping on a real session (restart, broadcast life-cycle for the three confirm modes, application bits), restart bit cleared only by WRITE g80v1[7]=0, not by reconnect.",
         "Timing of updates relative to a pending confirm is async and outside the claim.",
         "DESIGN.md §5 C13"),
 "C15": ("Bounded model checking of the master's acceptance predicates: response-header validation over all control/function/IIN octets (UNS <=> unsolicited function, unsolicited => FIR and FIN), duplicate-unsolicited detection (header + digest), reset forgets the last unsolicited fragment.",
         "Thin: sequence/source matching, multi-fragment rules and CONFIRM emission live in async fns of MasterSession and are NOT decided.",
         "DESIGN.md §5 C15"),
 "C16": ("Bounded model checking of the command echo comparison: for 1-2 commands per header (all fields symbolic), the reply being the faithful echo with optionally one byte XOR-ed by any mask and a count off by one: success <=> untouched echo and all statuses SUCCESS; header type mismatches rejected; request construction keeps every command added to a CommandBuilder (any pair of the ten type x index-width kinds).",
         "Exactly-one-outcome over failure points, promises and timeouts (async) are outside the claim; multi-header requests are covered only through the per-header comparison.",
         "DESIGN.md §5 C16"),
 "C17": ("Bounded model checking on a real Association: restart/need-time/overflow indications re-arm exactly the specified automatic tasks from any task state, reset re-arms start-up, back-off is min, doubling, capped at max as one inductive step (runs of any length), failure schedules now+delay; the fixed priority order of the six automatic tasks in TaskStates::next (which state is consulted first) for every combination of states, configuration and events-available bits.",
         "Which Task object is built for the chosen step (create_next_task is replaced by a marking stub because the 104-byte task enum stalls CBMC) and ordering across reconnects are not decided.",
         "DESIGN.md §5 C17"),
 "C18": ("Bounded model checking of both halves of the time-sync arithmetic with symbolic clocks: outstation RECORD_CURRENT_TIME + WRITE g50v3 yields exactly T + elapsed (elapsed since the MOST RECENT record) or PARAMETER_ERROR on overflow/clock error; master propagation delay = (round trip - reported delay)/2 on the source expression, error = half the asymmetry; 48-bit overflow => failure; NEED_TIME still set => failure.",
         "handle_delay_measure as a whole (response parsing + task enum by value) is attempted only in the thorough tier; unrelated interleaved traffic is outside.",
         "DESIGN.md §5 C18"),
 "C19": ("Bounded model checking of poll scheduling primitives: poll ready exactly from completion + period (or at once on demand), PollMap::next returns Now iff something is due and otherwise the earliest deadline strictly in the future (no spinning), keep-alive deadline = last activity + timeout; an idle association wakes at the earlier of its next poll and its keep-alive deadline.",
         "Thin: request-before-poll order, fairness between associations and one-outstanding-request are in the async run loop / big task enums and are NOT decided.",
         "DESIGN.md §5 C19"),
 "C20": ("Bounded model checking of the binding layer's conversions: every enum conversion impl with a like-named native enum (generated from both enum definitions) maps each variant to its namesake; measurement structs, flags, the three time qualities, IIN bits, update options and event classes field-for-field, in both directions (binding -> native for the outstation database, native -> binding for the master's read handler).",
         "Conversions involving strings, errors collapsed to ParamError and raw-pointer database entry points are not covered.",
         "DESIGN.md §5 C20"),
 "C06": ("Bounded model checking of the link codec: table CRC step == bit-serial CRC-16/DNP for all 2^24 (acc,byte) pairs, GF(2)-linearity, header accept <=> length>=5 and reference CRC with fields decoded as transmitted, Hamming distance >= 4 of header and body blocks via syndromes built by the real CRC code, body de-framing for payload lengths 1..250 and format->parse round trips for 0..249 application bytes (checksum abstracted there), sync-search automaton and step atomicity in discard/close mode, receive-buffer window arithmetic (shift/advance) for any begin/end.",
         "Induction over bytes (CRC) and over calls (chunk independence) are arguments, the steps are solver results. CRC abstracted by a cheap checksum inside the framing loops. Reader::read_frame (async), datagram-mode reset and resynchronisation inside an already-consumed header (state ReadBody) are outside the claim.",
         "DESIGN.md §5 C06"),
 "C07": ("Bounded model checking of link addressing: process_header for all 2^41 (control, destination, source) x roles x self-address x local address x secondary states incl. a retransmitted frame; broadcast FIR+FIN rule of the assembler; the foreign-master/broadcast filter of pop_request over every parse outcome.",
         "Decides the synchronous filters only: that no async path writes a response for a broadcast or foreign fragment in confirm-wait states is outside the claim.",
         "DESIGN.md §5 C07"),
 "C08": ("Bounded model checking of transport reassembly as a one-step inductive specification (any state, any buffer content, any segment) plus a 3-segment fault-injection cross-check and real-size length arithmetic; link framing round trip for every segment length shared with C06.",
         "Capacity 8 stands for 249..2048 in the content-tracking step (size-agnostic code; real sizes in c08_assembler_lengths). Writer::write is async: its chunk arithmetic is checked on the extracted expressions. Induction over segments is an argument.",
         "DESIGN.md §5 C08"),
 "C04": ("Bounded model checking of the SELECT/OPERATE matching predicate and select-state bookkeeping over all sequence numbers, frame ids, hashes, clock readings and timeouts 1 ms..1 h; the solver decides, nothing is sampled.",
         "Decides match_operate/update_frame_id and the synchronous control-collection helpers; that the session records a select only after an all-success SELECT and actuates exactly once lives in async code and is outside the claim. Clock stubbed by an arbitrary instant.",
         "DESIGN.md §5 C04"),
}
NA = {
 "C02": "needs two tokio tasks, user threads, real sockets and reconnect timing; Kani/CBMC has no concurrency or I/O model, and cutting those away leaves nothing of the property",
 "C14": "every clause is temporal over tokio::select!/timer code (async confirm-wait loops) that bounded symbolic execution could not execute (DESIGN.md §2.9)",
}
PENDING = "check not built yet in this revision of /verif (see DESIGN.md for the plan); not claimed until a registered harness family exists"

def main():
    props = [json.loads(l)["id"] for l in open(os.path.join(V, "properties.jsonl"))]
    hooks = subprocess.run(["git", "-C", "/repo", "log", "--format=%h %s"], capture_output=True, text=True).stdout.splitlines()
    hook_commits = [l.split()[0] for l in hooks if "verif hook" in l]
    m = {
     "version": 1,
     "setup_cmd": "bin/check --setup",
     "hooks": {
       "guard": "cfg(kani)",
       "enable": "cargo kani (sets --cfg kani); hooks are `#[cfg(kani)] #[path = \"/verif/harness/<file>.rs\"] mod verif_harness;` lines appended to source files (list: /verif/hooks.txt)",
       "baseline_off_cmd": "cd /repo && cargo test --workspace --no-fail-fast --offline",
       "source_commits": hook_commits,
       "add_only": True,
     },
     "engines": [{"name": "kani-cbmc", "path": "bin/check", "serves_properties": sorted(CLAIMS), "kind_free_text": "Kani 0.68 front end, own CBMC 6.11 driver (same flags as kani-driver), CaDiCaL; Kani concrete playback for native replay"}],
     "checks": [],
     "not_applicable": [],
     "notes": "exit 2 = check inconclusive/broken (never reported as held). Evidence is rewritten by every run. known_findings.txt lists recorded/fixed defects.",
    }
    for p in props:
        if p in CLAIMS:
            text, note, ref = CLAIMS[p]
            m["checks"].append({
              "property_id": p,
              "quick_cmd": f"bin/check {p} --tier quick",
              "thorough_cmd": f"bin/check {p} --tier thorough",
              "evidence_file": f"evidence/{p}.json",
              "replay_cmd_template": "bin/check --replay {path}",
              "engine": "kani-cbmc",
              "level_claimed": {"category": "model_checking", "text": text, "design_ref": ref},
              "level_note": note,
              "technique": TECH,
            })
        else:
            m["not_applicable"].append({"property_id": p, "reason": NA.get(p, PENDING)})
    json.dump(m, open(os.path.join(V, "MANIFEST.json"), "w"), indent=1)
    print("claimed:", sorted(CLAIMS), "not applicable:", [x["property_id"] for x in m["not_applicable"]])
main()
