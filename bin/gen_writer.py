"""C08 generator: lifts the chunking statements of transport::real::Writer::write into an expression the harness
evaluates for a symbolic fragment length and segment position.  Fails closed when the source shape changes."""
import os, re
def generate(repo, out):
    src = open(os.path.join(repo, "dnp3/src/transport/real/writer.rs")).read()
    m = re.search(r"(let chunks = fragment\.chunks\(([^;]*)\);\s*)(.*?)for \(count, chunk\) in chunks\.enumerate\(\) \{", src, re.S)
    h = re.search(r"let header = Header::new\(([^,]+),([^,]+),\s*self\.seq\.increment\(\)\);", src)
    if not m or not h:
        raise SystemExit("gen_writer: Writer::write no longer has the expected shape (fail closed)")
    pre = m.group(1) + m.group(3)
    if "await" in pre or "self." in pre:
        raise SystemExit("gen_writer: unexpected statements before the segment loop (fail closed)")
    expr = "{\n" + pre + f"\n let max_chunk: usize = {m.group(2)};\n let _ = &chunks;\n (({h.group(1).strip()}), ({h.group(2).strip()}), max_chunk)\n}}\n"
    open(os.path.join(out, "writer_segmentation_expr.rs"), "w").write(expr)
