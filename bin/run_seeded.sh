#!/bin/bash
# usage: bin/run_seeded.sh <seed dir name> <property> [check args]
# applies seeded/<seed>/patch.diff to a scratch worktree of /repo HEAD (never to /repo itself when VERIF_SEED_INPLACE is
# unset), runs the check against it with evidence/replays redirected, removes the worktree.
set -u
seed=$1; prop=$2; shift 2
wt=/tmp/seedrepo-$seed-$prop
logdir=${VERIF_SEED_LOGDIR:-/var/tmp}; mkdir -p $logdir
git -C /repo worktree remove --force $wt 2>/dev/null
git -C /repo worktree add -q --detach $wt HEAD || exit 9
# carry over uncommitted changes of /repo (e.g. a fix under test)
git -C /repo diff | git -C $wt apply 2>/dev/null
git -C $wt apply /verif/seeded/$seed/patch.diff || { echo "seed=$seed apply failed"; git -C /repo worktree remove --force $wt; exit 9; }
cd /verif && VERIF_REPO=$wt VERIF_EVIDENCE_DIR=/var/tmp/seed-evidence VERIF_REPLAY_DIR=/var/tmp/seed-replays VERIF_SCRATCH=/var/tmp/dnp3-verif-seed bin/check $prop "$@" > $logdir/seed-$seed-$prop.log 2>&1; rc=$?
git -C /repo worktree remove --force $wt
echo "seed=$seed prop=$prop rc=$rc"; grep -E "VIOLATION|KNOWN|held|INCONCLUSIVE|broken" $logdir/seed-$seed-$prop.log | cut -c1-200 | head -4
