#!/bin/bash
# runs every claimed check of MANIFEST.json (quick tier by default) one after the other; summary at the end
tier=${1:-quick}
cd /verif
props=$(python3 -c "import json;print(' '.join(c['property_id'] for c in json.load(open('MANIFEST.json'))['checks']))")
mkdir -p /var/tmp/runall
for p in $props; do
  start=$(date +%s)
  bin/check $p --tier $tier > /var/tmp/runall/$p.log 2>&1; rc=$?
  end=$(date +%s)
  echo "$p rc=$rc wall=$((end-start))s $(grep -E 'held|VIOLATION|KNOWN-FINDING|INCONCLUSIVE|broken' /var/tmp/runall/$p.log | head -3 | cut -c1-160 | tr '\n' '|')"
done
