    use super::*;
    use crate::link::crc::*;

    // GF(2)-linearity of one table step: holds for every accumulator and byte pair
    #[kani::proof]
    #[kani::unwind(3)]
    fn crc_step_linear() {
        let a1: u16 = kani::any(); let a2: u16 = kani::any();
        let b1: u8 = kani::any(); let b2: u8 = kani::any();
        let l = crc_increment(a1 ^ a2, &[b1 ^ b2]);
        let r = crc_increment(a1, &[b1]) ^ crc_increment(a2, &[b2]);
        assert!(l == r);
        assert!(crc_increment(0, &[0]) == 0);
    }

    // header (8 bytes + 2 CRC): no error pattern of weight 1..=3 has a zero syndrome
    #[kani::proof]
    #[kani::unwind(82)]
    fn hdr_hd4() {
        // syndrome of a single flipped bit i of the 80-bit word [data(8) | crc(2)]
        let mut syn = [0u16; 80];
        let mut i = 0;
        while i < 80 {
            let mut w = [0u8; 10];
            w[i / 8] = 1 << (i % 8);
            let c = crc_increment(0, &w[0..8]);
            syn[i] = c ^ u16::from_le_bytes([w[8], w[9]]);
            i += 1;
        }
        let i1: usize = kani::any(); let i2: usize = kani::any(); let i3: usize = kani::any();
        kani::assume(i1 < 80 && i2 < 80 && i3 < 80 && i1 < i2 && i2 < i3);
        assert!(syn[i1] != 0);
        assert!(syn[i1] ^ syn[i2] != 0);
        assert!(syn[i1] ^ syn[i2] ^ syn[i3] != 0);
    }
