    use super::*;

    fn crc_stub(slice: &[u8]) -> u16 {
        let mut acc: u16 = 0x1234;
        for b in slice { acc = acc.wrapping_add(*b as u16); }
        acc
    }
    fn crc0564_stub(slice: &[u8]) -> u16 { crc_stub(slice) ^ 0x5555 }

    // body abstracted: header-only frames complete immediately, anything else waits for bytes that never come
    fn body_stub(p: &mut Parser, trailer_length: usize, cursor: &mut ReadCursor, payload: &mut FramePayload) -> Result<Option<()>, ParseError> {
        if cursor.remaining() < trailer_length { return Ok(None); }
        payload.clear();
        let _ = cursor.read_bytes(trailer_length)?;
        if trailer_length != 0 && kani::any() { return Err(FrameError::BadBodyCrc.into()); }
        p.state = ParseState::FindSync1;
        Ok(Some(()))
    }

    fn drive(mode: LinkErrorMode, buf: &[u8], split: usize) -> bool {
        let mut parser = Parser::new(mode);
        let mut payload = FramePayload::new();
        let mut begin = 0usize;
        // first read delivers buf[..split]
        let mut c1 = ReadCursor::new(&buf[begin..split]);
        let r1 = parser.parse(&mut c1, &mut payload);
        begin += c1.position();
        match r1 {
            Ok(Some(_)) => return true,
            Err(_) => return false,
            Ok(None) => {}
        }
        // second read delivers the rest; unread bytes of the first read are still in the buffer
        let mut c2 = ReadCursor::new(&buf[begin..]);
        matches!(parser.parse(&mut c2, &mut payload), Ok(Some(_)))
    }

    #[kani::proof]
    #[kani::unwind(14)]
    #[kani::stub(crate::link::crc::calc_crc, crc_stub)]
    #[kani::stub(crate::link::crc::calc_crc_with_0564, crc0564_stub)]
    #[kani::stub(Parser::parse_body, body_stub)]
    fn discard_split_1noise() {
        const P: usize = 1;
        const N: usize = P + 10;
        let mut buf: [u8; N] = kani::any();
        buf[P] = 0x05; buf[P + 1] = 0x64; buf[P + 2] = 5;
        let c = crc0564_stub(&buf[P + 2..P + 8]);
        buf[P + 8] = (c & 0xff) as u8; buf[P + 9] = (c >> 8) as u8;
        let split: usize = kani::any();
        kani::assume(split >= 1 && split < N);
        let whole = drive(LinkErrorMode::Discard, &buf, N);
        let parts = drive(LinkErrorMode::Discard, &buf, split);
        kani::cover!(whole);
        // chunking independence: whatever the unsplit parse finds, the split parse finds too
        assert!(!whole || parts);
    }
