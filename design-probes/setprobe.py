#!/usr/bin/env python3
# usage: setprobe.py <relative file in dnp3/src> <probe body file>
import sys
import os
p=os.environ.get('PROBE_DIR','/tmp/probe/dnp3repo')+'/dnp3/src/'+sys.argv[1]
s=open(p).read()
marker='\n#[cfg(kani)]\nmod verif_probe'
if marker in s:
    s=s[:s.index(marker)]
s+=marker+' {\n'+open(sys.argv[2]).read()+'\n}\n'
open(p,'w').write(s)
