    use super::*;
    #[kani::proof]
    fn analog_to_i16() {
        let v: f64 = kani::any();
        let f: u8 = kani::any();
        let a = AnalogInput { value: v, flags: Flags::new(f), time: None };
        let (fl, x) = a.to_i16();
        if v.is_nan() { return; }
        if v > 32767.0 { assert!(x == i16::MAX && fl.value & 0x20 != 0); }
        else if v < -32768.0 { assert!(x == i16::MIN && fl.value & 0x20 != 0); }
        else { assert!(fl.value == f); assert!((x as f64 - v).abs() < 1.0); }
    }
