    use super::*;
    use crate::app::parse::traits::*;

    // octet string range iterator ending at index 65535
    #[kani::proof]
    #[kani::unwind(4)]
    fn ranged_bytes_iter_no_panic() {
        let data: [u8; 4] = kani::any();
        let start: u16 = kani::any();
        let count: usize = kani::any();
        kani::assume(count >= 1 && count <= 2);
        kani::assume(start as usize + count - 1 <= 65535);
        let mut c = ReadCursor::new(&data);
        let opts = ParseOptions { parse_zero_length_strings: false };
        if let Ok(seq) = RangedBytesSequence::parse(opts, 2, start, count, &mut c) {
            let mut n = 0;
            for (_b, i) in seq.iter() { assert!(i as usize == start as usize + n); n += 1; }
            assert!(n == count);
        }
    }
