#!/bin/bash
# usage: runk.sh <timeout_s> <harness> [extra args]
export CARGO_NET_OFFLINE=true
cd ${PROBE_DIR:-/tmp/probe/dnp3repo}
t=$1; h=$2; shift 2
start=$(date +%s)
timeout $t cargo kani -p dnp3 --no-default-features --harness $h "$@" > /tmp/probe/$h.log 2>&1
rc=$?
end=$(date +%s)
echo "=== $h rc=$rc wall=$((end-start))s"
grep -E "VERIFICATION|Verification Time|^[0-9]+ variables|Status: FAIL|Status: UNDET|^error|unwinding assertion.*FAIL|Failed Checks" /tmp/probe/$h.log | sort | uniq -c | tail -12
