    use super::*;
    use crate::outstation::database::EventBufferConfig;
    use crate::outstation::database::ClassZeroConfig;
    use crate::util::phys::PhysAddr;
    use std::future::Future;
    use std::pin::Pin;
    use std::task::{Context, Poll, RawWaker, RawWakerVTable, Waker};

    fn mk_instant(secs: u32, nanos: u32) -> tokio::time::Instant {
        let raw: (i64, u32) = (secs as i64, nanos);
        let std_i: std::time::Instant = unsafe { std::mem::transmute_copy(&raw) };
        tokio::time::Instant::from_std(std_i)
    }
    fn now_stub() -> tokio::time::Instant {
        let s: u32 = kani::any(); let n: u32 = kani::any();
        kani::assume(n < 1_000_000_000);
        mk_instant(s, n)
    }

    fn noop_waker() -> Waker {
        fn clone(_: *const ()) -> RawWaker { RawWaker::new(std::ptr::null(), &VT) }
        fn noop(_: *const ()) {}
        static VT: RawWakerVTable = RawWakerVTable::new(clone, noop, noop, noop);
        unsafe { Waker::from_raw(RawWaker::new(std::ptr::null(), &VT)) }
    }
    fn poll_once<F: Future>(f: F) -> Option<F::Output> {
        let mut f = std::pin::pin!(f);
        let w = noop_waker();
        let mut cx = Context::from_waker(&w);
        match f.as_mut().poll(&mut cx) { Poll::Ready(x) => Some(x), Poll::Pending => None }
    }

    struct App;
    impl OutstationApplication for App {}
    struct Info;
    impl OutstationInformation for Info {}

    fn mk_session() -> (OutstationSession, DatabaseHandle) {
        let (_tx, rx) = crate::util::channel::request_channel::<OutstationMessage>();
        let mut config = OutstationConfig::new(EndpointAddress::raw(10), EndpointAddress::raw(1), EventBufferConfig::all_types(2));
        config.keep_alive_timeout = None;
        let db = DatabaseHandle::new(None, ClassZeroConfig::default(), config.event_buffer_config);
        let dest = FragmentAddr { link: config.master_address, phys: PhysAddr::None };
        let s = OutstationSession::new(Enabled::Yes, rx, dest, config.into(), config.into(), Box::new(App), Box::new(Info), crate::outstation::DefaultControlHandler::create());
        std::mem::forget(_tx);
        (s, db)
    }

    #[kani::proof]
    #[kani::unwind(4)]
    #[kani::stub(tokio::time::Instant::now, now_stub)]
    fn sess_iin() {
        let (mut s, db) = mk_session();
        s.state.restart_iin_asserted = kani::any();
        let before = s.state.restart_iin_asserted;
        let iin = s.get_response_iin(&db);
        assert!(iin.iin1.get_device_restart() == before);
        std::mem::forget(s); std::mem::forget(db);
    }

    #[kani::proof]
    #[kani::unwind(6)]
    #[kani::stub(tokio::time::Instant::now, now_stub)]
    fn sess_request_idle() {
        let (mut s, mut db) = mk_session();
        let seq: u8 = kani::any();
        kani::assume(seq < 16);
        let frag = [0xC0 | seq, 0x17]; // DELAY_MEASURE
        let parsed = crate::app::parse::parser::ParsedFragment::parse(crate::app::parse::options::ParseOptions::default(), &frag).unwrap();
        let request = parsed.to_request().unwrap();
        let info = FragmentInfo::new(0, FragmentAddr { link: EndpointAddress::raw(1), phys: PhysAddr::None }, None);
        let r = poll_once(s.process_request_from_idle(info, request, &mut db));
        match r {
            Some(Some(lvr)) => {
                let resp = lvr.response.unwrap();
                assert!(resp.header.control.seq.value() == seq);
                assert!(!resp.header.control.uns);
            }
            _ => panic!("no response"),
        }
        std::mem::forget(s); std::mem::forget(db);
    }
