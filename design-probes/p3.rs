    use super::*;

    // one object header with CONCRETE group/variation; qualifier, range/count and data symbolic
    fn one_header<const N: usize>(group: u8, var: u8, size: usize) {
        let mut bytes: [u8; N] = kani::any();
        bytes[0] = group;
        bytes[1] = var;
        let len: usize = kani::any();
        kani::assume(len <= N);
        let read: bool = kani::any();
        let function = if read { FunctionCode::Read } else { FunctionCode::Response };
        let opts = ParseOptions { parse_zero_length_strings: kani::any() };
        let mut p = ObjectParser::one_pass(opts, function, &bytes[..len]);
        kani::assume(len >= 3);
        let _ = p.cursor.read_bytes(2);
        let v = match (group, var) { (30, 2) => Variation::Group30Var2, (2, 3) => Variation::Group2Var3, _ => panic!() };
        let q = QualifierCode::parse(&mut p.cursor);
        let r = match q {
            Ok(QualifierCode::AllObjects) => p.parse_all_objects(v),
            Ok(QualifierCode::Range8) => p.parse_start_stop_u8(v),
            Ok(QualifierCode::Range16) => p.parse_start_stop_u16(v),
            Ok(QualifierCode::Count8) => p.parse_count_u8(v),
            Ok(QualifierCode::Count16) => p.parse_count_u16(v),
            Ok(QualifierCode::CountAndPrefix8) => p.parse_count_and_prefix_u8(v),
            Ok(QualifierCode::CountAndPrefix16) => p.parse_count_and_prefix_u16(v),
            Ok(QualifierCode::FreeFormat16) => p.parse_free_format_u16(v),
            Err(e) => Err(e),
        };
        if let Ok(hdr) = r {
            let consumed = p.cursor.position();
            assert!(consumed >= 3 && consumed <= len);
            match hdr.details {
                HeaderDetails::OneByteStartStop(s, e, _) => {
                    assert!(bytes[2] == 0x00 && s <= e);
                    if !read { assert!(consumed == 5 + size * ((e - s) as usize + 1)); } else { assert!(consumed == 5); }
                }
                HeaderDetails::TwoByteStartStop(s, e, _) => {
                    assert!(bytes[2] == 0x01 && s <= e);
                    if !read { assert!(consumed == 7 + size * ((e - s) as usize + 1)); } else { assert!(consumed == 7); }
                }
                HeaderDetails::OneByteCount(c, _) => { assert!(bytes[2] == 0x07); assert!(consumed == 4 + size * c as usize); }
                HeaderDetails::TwoByteCount(c, _) => { assert!(bytes[2] == 0x08); assert!(consumed == 5 + size * c as usize); }
                HeaderDetails::OneByteCountAndPrefix(c, _) => { assert!(bytes[2] == 0x17); assert!(consumed == 4 + (size + 1) * c as usize); }
                HeaderDetails::TwoByteCountAndPrefix(c, _) => { assert!(bytes[2] == 0x28); assert!(consumed == 5 + (size + 2) * c as usize); }
                HeaderDetails::AllObjects(_) => { assert!(bytes[2] == 0x06 && consumed == 3); }
                HeaderDetails::TwoByteFreeFormat(_, _) => { assert!(bytes[2] == 0x5B); }
            }
            kani::cover!(consumed > 8);
        }
    }

    #[kani::proof]
    #[kani::unwind(20)]
    fn hdr_g30v2() { one_header::<16>(30, 2, 3) }

    #[kani::proof]
    #[kani::unwind(20)]
    fn hdr_g2v3() { one_header::<16>(2, 3, 3) }
