    use super::*;

    fn any_layer() -> Layer {
        let et = if kani::any() { EndpointType::Master } else { EndpointType::Outstation };
        let sa = if kani::any() { Feature::Enabled } else { Feature::Disabled };
        let local: u16 = kani::any();
        kani::assume(local < 0xFFF0);
        let mut l = Layer::new(LinkModes::stream(crate::link::LinkErrorMode::Close), 249, et, sa, EndpointAddress::raw(local));
        let st: u8 = kani::any();
        l.secondary_state = match st % 3 { 0 => SecondaryState::NotReset, 1 => SecondaryState::Reset(false), _ => SecondaryState::Reset(true) };
        l
    }

    #[kani::proof]
    #[kani::unwind(2)]
    fn ph_addressing() {
        let mut l = any_layer();
        let ctrl: u8 = kani::any();
        let dest: u16 = kani::any();
        let src: u16 = kani::any();
        let header = Header::new(ControlField::from(ctrl), AnyAddress::from(dest), AnyAddress::from(src));
        let local = l.local_address.raw_value();
        let is_master = matches!(l.endpoint_type, EndpointType::Master);
        let self_en = l.self_address.is_enabled();
        let (info, reply) = l.process_header(header, PhysAddr::None);
        let acted = info.is_some() || reply.is_some();
        if acted {
            // opposite station type
            assert!(((ctrl & 0x80) != 0) != is_master);
            // non-reserved source
            assert!(src < 0xFFF0);
            // addressed to us
            let to_us = dest == local || (dest == 0xFFFC && self_en) || (!is_master && dest >= 0xFFFD);
            assert!(to_us);
        }
        if dest >= 0xFFFD { assert!(reply.is_none()); }
        if let Some(r) = &reply { assert!(r.address.raw_value() == src); }
        kani::cover!(reply.is_some());
        kani::cover!(info.is_some());
    }
