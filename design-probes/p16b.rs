    use super::*;
    use crate::link::header::{FrameInfo, FrameType};
    use crate::util::phys::PhysAddr;
    use crate::link::LinkErrorMode;

    // a complete fragment from source `src` is waiting; the session asks for requests from master `m` only
    #[kani::proof]
    #[kani::unwind(6)]
    fn foreign_master_dropped_fc_ff() {
        let mut r = TransportReader::outstation(LinkModes::stream(LinkErrorMode::Close), ParseOptions::default(), EndpointAddress::raw(10), Feature::Disabled, 249);
        let src: u16 = kani::any();
        let m: u16 = kani::any();
        kani::assume(src < 0xFFF0 && m < 0xFFF0 && src != m);
        let info = FrameInfo::new(EndpointAddress::raw(src), None, FrameType::Data, PhysAddr::None);
        let c: u8 = kani::any();
        let data: [u8; 2] = [c, 0xFF];
        
        
        let hdr = crate::transport::real::header::Header::from_u8(0xC0);
        let st = r.inner.assembler_mut_for_verif().assemble(info, hdr, &data[..]);
        kani::assume(matches!(st, crate::transport::real::assembler::AssemblyState::Complete));
        let mut guard = r.pop_request(Some(EndpointAddress::raw(m)));
        let got = guard.get();
        let is_none = got.is_none();
        kani::cover!(!is_none);
        assert!(is_none);
        std::mem::forget(guard);
    }
