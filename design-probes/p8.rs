    use super::*;
    use crate::master::tasks::NonReadTask;
    use crate::util::phys::PhysAddr;

    fn mk_instant(secs: u32, nanos: u32) -> Instant {
        let raw: (i64, u32) = (secs as i64, nanos);
        let std_i: std::time::Instant = unsafe { std::mem::transmute_copy(&raw) };
        Instant::from_std(std_i)
    }
    fn any_instant() -> Instant {
        let s: u32 = kani::any(); let n: u32 = kani::any();
        kani::assume(n < 1_000_000_000);
        mk_instant(s, n)
    }
    fn now_stub() -> Instant { any_instant() }

    struct RH;
    impl ReadHandler for RH {}
    struct AH;
    impl AssociationHandler for AH { fn get_current_time(&self) -> Option<Timestamp> { None } }
    struct AI;
    impl AssociationInformation for AI {}

    fn any_ec() -> EventClasses { EventClasses::new(kani::any(), kani::any(), kani::any()) }

    fn any_state() -> AutoTaskState {
        if kani::any() { AutoTaskState::Idle } else { AutoTaskState::Pending }
    }

    #[derive(PartialEq, Clone, Copy)]
    enum Kind { None, ClearRestart, Disable, Integrity, TimeSync, Enable, EventScan, Other }

    fn kind(n: &Next<Task>) -> Kind {
        match n {
            Next::None => Kind::None,
            Next::NotBefore(_) => Kind::Other,
            Next::Now(Task::App(AppTask::NonRead(NonReadTask::Auto(AutoTask::ClearRestartBit)))) => Kind::ClearRestart,
            Next::Now(Task::App(AppTask::NonRead(NonReadTask::Auto(AutoTask::DisableUnsolicited(_))))) => Kind::Disable,
            Next::Now(Task::App(AppTask::NonRead(NonReadTask::Auto(AutoTask::EnableUnsolicited(_))))) => Kind::Enable,
            Next::Now(Task::App(AppTask::Read(ReadTask::StartupIntegrity(_)))) => Kind::Integrity,
            Next::Now(Task::App(AppTask::Read(ReadTask::EventScan(_)))) => Kind::EventScan,
            Next::Now(Task::App(AppTask::NonRead(NonReadTask::TimeSync(_)))) => Kind::TimeSync,
            _ => Kind::Other,
        }
    }

    #[kani::proof]
    #[kani::unwind(3)]
    #[kani::stub(tokio::time::Instant::now, now_stub)]
    fn assoc_new_only() {
        let config = AssociationConfig::new(any_ec(), any_ec(), Classes::new(kani::any(), any_ec()), any_ec());
        let addr = FragmentAddr { link: EndpointAddress::raw(1), phys: PhysAddr::None };
        let mut a = Association::new(addr, config, Box::new(RH), Box::new(AH), Box::new(AI));
        a.auto_tasks.clear_restart_iin = any_state();
        a.on_restart_iin_observed();
        assert!(a.auto_tasks.clear_restart_iin.is_pending());
        assert!(a.auto_tasks.integrity_scan.is_pending());
        std::mem::forget(a);
    }

    #[kani::proof]
    #[kani::unwind(3)]
    #[kani::stub(tokio::time::Instant::now, now_stub)]
    fn assoc_next_forget() {
        let config = AssociationConfig::new(any_ec(), any_ec(), Classes::new(kani::any(), any_ec()), any_ec());
        let addr = FragmentAddr { link: EndpointAddress::raw(1), phys: PhysAddr::None };
        let mut a = Association::new(addr, config, Box::new(RH), Box::new(AH), Box::new(AI));
        a.auto_tasks.disable_unsolicited = any_state();
        a.auto_tasks.integrity_scan = any_state();
        a.auto_tasks.enabled_unsolicited = any_state();
        a.auto_tasks.clear_restart_iin = any_state();
        let n = a.auto_tasks.next(&a.config, &a);
        let is_enable = matches!(n, Next::Now(Task::App(AppTask::NonRead(NonReadTask::Auto(AutoTask::EnableUnsolicited(_))))));
        if is_enable {
            assert!(a.auto_tasks.clear_restart_iin.is_idle());
            assert!(!(config.startup_integrity_classes.any() && a.auto_tasks.integrity_scan.is_pending()));
        }
        kani::cover!(is_enable);
        std::mem::forget(n);
        std::mem::forget(a);
    }
