    use super::*;
    use crate::app::measurement::*;
    use crate::outstation::database::config::*;

    struct App { cleared: usize }
    impl OutstationApplication for App {
        fn event_cleared(&mut self, _id: u64) { self.cleared += 1; }
    }

    fn any_class() -> EventClass {
        let c: u8 = kani::any();
        kani::assume(c < 3);
        match c { 0 => EventClass::Class1, 1 => EventClass::Class2, _ => EventClass::Class3 }
    }

    // ground truth recomputed from the records
    fn check_invariant(b: &EventBuffer) {
        let mut tot = [0usize; 3];
        let mut wr = [0usize; 3];
        for (_, r) in b.events.iter() {
            let k = match r.class { EventClass::Class1 => 0, EventClass::Class2 => 1, EventClass::Class3 => 2 };
            tot[k] += 1;
            if r.state.get() == EventState::Written { wr[k] += 1; }
        }
        assert!(b.total.classes.num_class_1.value == tot[0]);
        assert!(b.total.classes.num_class_2.value == tot[1]);
        assert!(b.total.classes.num_class_3.value == tot[2]);
        assert!(b.written.classes.num_class_1.value == wr[0]);
        assert!(b.written.classes.num_class_2.value == wr[1]);
        assert!(b.written.classes.num_class_3.value == wr[2]);
        let u = b.unwritten_classes();
        assert!(u.class1 == (tot[0] > wr[0]));
        assert!(u.class2 == (tot[1] > wr[1]));
        assert!(u.class3 == (tot[2] > wr[2]));
    }

    fn write_stub(_e: &Event, _index: u16, _cursor: &mut WriteCursor, _writer: &mut EventWriter) -> Result<(), BadWrite> {
        if kani::any() { Ok(()) } else { Err(BadWrite) }
    }

    fn op(b: &mut EventBuffer, app: &mut App, out: &mut [u8; 32], op: u8) {
        match op {
            0 => { let _ = b.insert(kani::any(), any_class(), &BinaryInput::new(true, Flags::ONLINE, Time::unsynchronized(0)), EventBinaryInputVariation::Group2Var1); }
            1 => { let _ = b.insert(kani::any(), any_class(), &DoubleBitBinaryInput::new(DoubleBit::DeterminedOn, Flags::ONLINE, Time::unsynchronized(0)), EventDoubleBitBinaryInputVariation::Group4Var1); }
            2 => { let c = any_class(); let lim: Option<usize> = if kani::any() { Some(1) } else { None }; b.select_by_class(c.into(), lim); }
            3 => { let mut cur = WriteCursor::new(&mut out[..]); let _ = b.write_events(&mut cur); }
            4 => { b.clear_written(app); }
            _ => { b.reset(); }
        }
        check_invariant(b);
    }

    fn sched(ops: &[u8]) {
        let mut b = EventBuffer::new(EventBufferConfig::new(2, 1, 0, 0, 0, 0, 0, 0));
        let mut app = App { cleared: 0 };
        let mut out = [0u8; 32];
        for o in ops { op(&mut b, &mut app, &mut out, *o); }
    }

    #[kani::proof]
    #[kani::unwind(6)]
    #[kani::stub(Event::write, write_stub)]
    fn sched_0_0_2_3_0() { sched(&[0, 0, 2, 3, 0]) }

    #[kani::proof]
    #[kani::unwind(6)]
    #[kani::stub(Event::write, write_stub)]
    fn sched_0_2_3_4_0() { sched(&[0, 2, 3, 4, 0]) }
