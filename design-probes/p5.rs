    use super::*;

    // cheap stand-in for the CRC (framing logic is parametric in the checksum function)
    fn crc_stub(slice: &[u8]) -> u16 {
        let mut acc: u16 = 0x1234;
        for b in slice { acc = acc.wrapping_add(*b as u16); }
        acc
    }
    fn crc0564_stub(slice: &[u8]) -> u16 { crc_stub(slice) ^ 0x5555 }

    // header-only frames: valid frame preceded by P noise bytes, split into two reads at arbitrary point
    #[kani::proof]
    #[kani::unwind(16)]
    #[kani::stub(crate::link::crc::calc_crc, crc_stub)]
    #[kani::stub(crate::link::crc::calc_crc_with_0564, crc0564_stub)]
    fn discard_two_chunks() {
        const P: usize = 2;
        const N: usize = P + 10;
        let mut buf: [u8; N] = kani::any();
        // build a valid header-only frame at offset P
        buf[P] = 0x05; buf[P + 1] = 0x64; buf[P + 2] = 5;
        let c = crc0564_stub(&buf[P + 2..P + 8]);
        buf[P + 8] = (c & 0xff) as u8; buf[P + 9] = (c >> 8) as u8;
        // the noise must not itself contain the start of a frame that swallows the real one: noise != 0x05 0x64
        let split: usize = kani::any();
        kani::assume(split >= 1 && split < N);

        let mut parser = Parser::new(LinkErrorMode::Discard);
        let mut payload = FramePayload::new();
        // emulate Reader: first read delivers buf[..split], unconsumed bytes stay in the buffer
        let mut c1 = ReadCursor::new(&buf[..split]);
        let r1 = parser.parse(&mut c1, &mut payload);
        let consumed = c1.position();
        let found = match r1 {
            Ok(Some(_)) => true,
            Ok(None) => {
                let mut c2 = ReadCursor::new(&buf[consumed..]);
                matches!(parser.parse(&mut c2, &mut payload), Ok(Some(_)))
            }
            Err(_) => false,
        };
        assert!(found);
    }
