    use super::*;

    fn ref_crc(data: &[u8]) -> u16 {
        let mut crc: u16 = 0;
        for b in data {
            crc ^= *b as u16;
            for _ in 0..8 {
                if crc & 1 != 0 { crc = (crc >> 1) ^ 0xA6BC; } else { crc >>= 1; }
            }
        }
        !crc
    }

    // one inductive step of the table-driven CRC == one byte of the bit-serial reference, for every accumulator
    #[kani::proof]
    #[kani::unwind(10)]
    fn crc_step() {
        let acc: u16 = kani::any();
        let b: u8 = kani::any();
        let got = crate::link::crc::crc_increment(acc, &[b]);
        let mut crc = acc ^ (b as u16);
        for _ in 0..8 { if crc & 1 != 0 { crc = (crc >> 1) ^ 0xA6BC; } else { crc >>= 1; } }
        assert!(got == crc);
    }

    // parse_header on 8 arbitrary bytes: accept => length>=5 and CRC equals reference over 0x05 0x64 + 6 bytes
    #[kani::proof]
    #[kani::unwind(10)]
    fn hdr_accept() {
        let bytes: [u8; 8] = kani::any();
        let mut p = Parser::new(LinkErrorMode::Close);
        p.state = ParseState::ReadHeader;
        let mut c = ReadCursor::new(&bytes);
        let r = p.parse_header(&mut c);
        if r.is_ok() {
            assert!(c.position() == 8);
            assert!(bytes[0] >= 5);
            let full = [0x05, 0x64, bytes[0], bytes[1], bytes[2], bytes[3], bytes[4], bytes[5]];
            let e = ref_crc(&full);
            assert!(bytes[6] == (e & 0xff) as u8 && bytes[7] == (e >> 8) as u8);
            if let ParseState::ReadBody(h, tl) = p.state {
                assert!(h.control.to_u8() == bytes[1]);
                assert!(h.destination.value() == u16::from_le_bytes([bytes[2], bytes[3]]));
                assert!(h.source.value() == u16::from_le_bytes([bytes[4], bytes[5]]));
                let n = (bytes[0] - 5) as usize;
                assert!(tl == n + 2 * ((n + 15) / 16));
            } else { panic!("state"); }
        }
    }

    // up to 3 flipped bits in an accepted header are never accepted
    #[kani::proof]
    #[kani::unwind(10)]
    fn hdr_3bit() {
        let bytes: [u8; 8] = kani::any();
        let mut p = Parser::new(LinkErrorMode::Close);
        p.state = ParseState::ReadHeader;
        let mut c = ReadCursor::new(&bytes);
        kani::assume(p.parse_header(&mut c).is_ok());
        let mut bad = bytes;
        let i1: usize = kani::any(); let i2: usize = kani::any(); let i3: usize = kani::any();
        kani::assume(i1 < 64 && i2 < 64 && i3 < 64);
        bad[i1 / 8] ^= 1 << (i1 % 8);
        if kani::any() { bad[i2 / 8] ^= 1 << (i2 % 8); }
        if kani::any() { bad[i3 / 8] ^= 1 << (i3 % 8); }
        kani::assume(bad != bytes);
        let mut p2 = Parser::new(LinkErrorMode::Close);
        p2.state = ParseState::ReadHeader;
        let mut c2 = ReadCursor::new(&bad);
        assert!(p2.parse_header(&mut c2).is_err());
    }

    // one full block body (16 data + 2 crc): accept => crc matches reference and payload is the data
    #[kani::proof]
    #[kani::unwind(20)]
    fn body18() {
        let bytes: [u8; 18] = kani::any();
        let mut p = Parser::new(LinkErrorMode::Close);
        let mut payload = FramePayload::new();
        let mut c = ReadCursor::new(&bytes);
        let r = p.parse_body(18, &mut c, &mut payload);
        if let Ok(Some(())) = r {
            let e = ref_crc(&bytes[0..16]);
            assert!(bytes[16] == (e & 0xff) as u8 && bytes[17] == (e >> 8) as u8);
            assert!(payload.get().len() == 16);
            assert!(payload.get()[0] == bytes[0] && payload.get()[15] == bytes[15]);
        }
    }
