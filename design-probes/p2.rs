    use super::*;

    fn mk_instant(secs: u32, nanos: u32) -> tokio::time::Instant {
        let raw: (i64, u32) = (secs as i64, nanos);
        let std_i: std::time::Instant = unsafe { std::mem::transmute_copy(&raw) };
        tokio::time::Instant::from_std(std_i)
    }

    fn any_instant() -> tokio::time::Instant {
        let s: u32 = kani::any();
        let n: u32 = kani::any();
        kani::assume(n < 1_000_000_000);
        mk_instant(s, n)
    }

    fn now_stub() -> tokio::time::Instant {
        any_instant()
    }

    #[kani::proof]
    #[kani::unwind(3)]
    #[kani::stub(tokio::time::Instant::now, now_stub)]
    fn match_operate_time() {
        let t0 = any_instant();
        let seq0 = Sequence::new(kani::any());
        let fid: u32 = kani::any();
        let h: u64 = kani::any();
        let s = SelectState::new(seq0, fid, t0, h);
        let timeout_ms: u32 = kani::any();
        kani::assume(timeout_ms >= 1 && timeout_ms <= 3_600_000);
        let timeout = Timeout(std::time::Duration::new((timeout_ms / 1000) as u64, (timeout_ms % 1000) * 1_000_000));
        let seq1 = Sequence::new(kani::any());
        let fid1: u32 = kani::any();
        let h1: u64 = kani::any();
        let r = s.match_operate(timeout, seq1, fid1, h1);
        if r.is_ok() {
            assert!(seq1.value() == (seq0.value() + 1) % 16);
            assert!(fid1 == fid.wrapping_add(1));
            assert!(h1 == h);
        }
        kani::cover!(r.is_ok());
        kani::cover!(matches!(r, Err(CommandStatus::Timeout)));
    }
