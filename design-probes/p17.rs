    use super::*;

    // Discard mode, sync search only: feed k<=2 bytes in ONE call from a symbolic sync state.
    // Reference: the state after the call must be the KMP state of pattern [05,64] over (history + bytes).
    fn body_stub(_p: &mut Parser, _tl: usize, _c: &mut ReadCursor, _pl: &mut FramePayload) -> Result<Option<()>, ParseError> { Ok(None) }
    fn header_stub(_p: &mut Parser, c: &mut ReadCursor) -> Result<(), ParseError> {
        if c.remaining() < 8 { return Ok(()); }
        Err(FrameError::BadHeaderCrc.into())
    }

    #[kani::proof]
    #[kani::unwind(5)]
    #[kani::stub(Parser::parse_body, body_stub)]
    #[kani::stub(Parser::parse_header, header_stub)]
    fn resync_automaton() {
        let mut p = Parser::new(LinkErrorMode::Discard);
        let start_sync2: bool = kani::any();
        p.state = if start_sync2 { ParseState::FindSync2 } else { ParseState::FindSync1 };
        let b: [u8; 2] = kani::any();
        let two: bool = kani::any();
        let mut payload = FramePayload::new();
        let r = if two { let mut c = ReadCursor::new(&b[..]); let r = p.parse(&mut c, &mut payload); assert!(c.position() == 2); r }
                else { let mut c = ReadCursor::new(&b[..1]); let r = p.parse(&mut c, &mut payload); assert!(c.position() == 1); r };
        assert!(matches!(r, Ok(None)));
        // reference automaton: 0 = nothing matched, 1 = "05" matched, 2 = "05 64" matched
        let mut k: u8 = if start_sync2 { 1 } else { 0 };
        let n = if two { 2 } else { 1 };
        let mut i = 0;
        while i < n {
            let x = b[i];
            k = match (k, x) { (1, 0x64) => 2, (2, _) => 2, (_, 0x05) => 1, _ => 0 };
            i += 1;
        }
        let got = match p.state { ParseState::FindSync1 => 0, ParseState::FindSync2 => 1, ParseState::ReadHeader => 2, _ => 3 };
        assert!(got == k);
    }
