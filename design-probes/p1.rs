    use super::*;
    use crate::link::format::*;
    use scursor::WriteCursor;

    #[kani::proof]
    #[kani::unwind(10)]
    fn crc8() {
        let bytes: [u8; 8] = kani::any();
        let c = crate::link::crc::calc_crc(&bytes);
        assert!(c == ref_crc(&bytes));
    }

    #[kani::proof]
    #[kani::unwind(12)]
    fn fmt_only() {
        let ctrl: u8 = kani::any();
        let dest: u16 = kani::any();
        let src: u16 = kani::any();
        let header = Header::new(ControlField::from(ctrl), AnyAddress::from(dest), AnyAddress::from(src));
        let mut buffer = [0u8; 10];
        let mut cursor = WriteCursor::new(&mut buffer);
        let ok = format_header_only(header, &mut cursor).is_ok();
        assert!(ok);
        assert!(buffer[0] == 5);
    }

    #[kani::proof]
    #[kani::unwind(12)]
    fn parse_only() {
        let bytes: [u8; 10] = kani::any();
        let mut parser = Parser::new(LinkErrorMode::Close);
        let mut payload = FramePayload::new();
        let mut rc = ReadCursor::new(&bytes);
        let res = parser.parse(&mut rc, &mut payload);
        if let Ok(Some(h)) = res {
            assert!(bytes[0] == 0x05 && bytes[1] == 0x64);
            assert!(bytes[2] == 5);
            assert!(h.control.to_u8() == bytes[3]);
        }
    }

    fn ref_crc(data: &[u8]) -> u16 {
        let mut crc: u16 = 0;
        for b in data {
            crc ^= *b as u16;
            for _ in 0..8 {
                if crc & 1 != 0 { crc = (crc >> 1) ^ 0xA6BC; } else { crc >>= 1; }
            }
        }
        !crc
    }
